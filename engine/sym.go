package main

// Symbolic terms (hash-consed) and their SMT-LIB2 rendering.

import (
	"fmt"
	"math"
	"strings"
)

type sortKind uint8

const (
	sBool sortKind = iota
	sBV
	sFP64
	sFP32
)

type Sort struct {
	k sortKind
	w int // for sBV
}

func (s Sort) smt() string {
	switch s.k {
	case sBool:
		return "Bool"
	case sBV:
		return fmt.Sprintf("(_ BitVec %d)", s.w)
	case sFP64:
		return "(_ FloatingPoint 11 53)"
	case sFP32:
		return "(_ FloatingPoint 8 24)"
	}
	panic("sort")
}

func bvSort(w int) Sort { return Sort{sBV, w} }

var boolSort = Sort{sBool, 0}
var fp64Sort = Sort{sFP64, 0}
var fp32Sort = Sort{sFP32, 0}

// Term is an immutable, hash-consed SMT term.
type Term struct {
	id    int
	op    string // smt operator, or "const", "var"
	args  []*Term
	sort  Sort
	text  string // for const/var: the SMT text (var: its name)
	isC   bool   // constant
	cu    uint64 // for BV const: value (zero extended); bool const: 0/1
	sent  bool   // defined in solver
	label string // for var: harness label
}

func (t *Term) name() string {
	if t.op == "const" || t.op == "var" {
		return t.text
	}
	return fmt.Sprintf("t%d", t.id)
}

func (t *Term) String() string { return t.render(3) }

func (t *Term) render(depth int) string {
	if t.op == "const" || t.op == "var" {
		return t.text
	}
	if depth == 0 {
		return t.name()
	}
	var sb strings.Builder
	sb.WriteString("(" + t.op)
	for _, a := range t.args {
		sb.WriteString(" " + a.render(depth-1))
	}
	sb.WriteString(")")
	return sb.String()
}

// TermStore owns hash-consing for one worker.
type TermStore struct {
	byKey map[string]*Term
	next  int
	vars  []*Term // declared variables in creation order (per store lifetime)
	tTrue, tFalse *Term
}

func newTermStore() *TermStore {
	ts := &TermStore{byKey: map[string]*Term{}}
	ts.tTrue = ts.mkConst(boolSort, "true", 1)
	ts.tFalse = ts.mkConst(boolSort, "false", 0)
	return ts
}

func (ts *TermStore) mkConst(s Sort, text string, cu uint64) *Term {
	key := "c|" + s.smt() + "|" + text
	if t, ok := ts.byKey[key]; ok {
		return t
	}
	ts.next++
	t := &Term{id: ts.next, op: "const", sort: s, text: text, isC: true, cu: cu, sent: true}
	ts.byKey[key] = t
	return t
}

func (ts *TermStore) Var(name string, s Sort) *Term {
	key := "v|" + name
	if t, ok := ts.byKey[key]; ok {
		if t.sort != s {
			panic(engineErr{"variable " + name + " redeclared with a different sort"})
		}
		return t
	}
	ts.next++
	t := &Term{id: ts.next, op: "var", sort: s, text: name, label: name}
	ts.byKey[key] = t
	ts.vars = append(ts.vars, t)
	return t
}

func (ts *TermStore) Bool(b bool) *Term {
	if b {
		return ts.tTrue
	}
	return ts.tFalse
}

func maskW(w int) uint64 {
	if w >= 64 {
		return ^uint64(0)
	}
	return (uint64(1) << uint(w)) - 1
}

func (ts *TermStore) BV(v uint64, w int) *Term {
	v &= maskW(w)
	return ts.mkConst(bvSort(w), fmt.Sprintf("(_ bv%d %d)", v, w), v)
}

func (ts *TermStore) FP64(f float64) *Term {
	bits := math.Float64bits(f)
	if f != f {
		return ts.mkConst(fp64Sort, "(_ NaN 11 53)", bits)
	}
	return ts.mkConst(fp64Sort, fmt.Sprintf("((_ to_fp 11 53) #x%016x)", bits), bits)
}

func (ts *TermStore) FP32(f float32) *Term {
	bits := math.Float32bits(f)
	if f != f {
		return ts.mkConst(fp32Sort, "(_ NaN 8 24)", uint64(bits))
	}
	return ts.mkConst(fp32Sort, fmt.Sprintf("((_ to_fp 8 24) #x%08x)", bits), uint64(bits))
}

func (ts *TermStore) mk(op string, s Sort, args ...*Term) *Term {
	var kb strings.Builder
	kb.WriteString(op)
	for _, a := range args {
		fmt.Fprintf(&kb, "|%d", a.id)
	}
	key := kb.String()
	if t, ok := ts.byKey[key]; ok {
		return t
	}
	ts.next++
	t := &Term{id: ts.next, op: op, sort: s, args: append([]*Term(nil), args...)}
	ts.byKey[key] = t
	return t
}

// ---- boolean constructors with light simplification ----

func (ts *TermStore) Not(a *Term) *Term {
	if a.isC {
		return ts.Bool(a.cu == 0)
	}
	if a.op == "not" {
		return a.args[0]
	}
	return ts.mk("not", boolSort, a)
}

func (ts *TermStore) And(a, b *Term) *Term {
	if a.isC {
		if a.cu == 0 {
			return ts.tFalse
		}
		return b
	}
	if b.isC {
		if b.cu == 0 {
			return ts.tFalse
		}
		return a
	}
	if a == b {
		return a
	}
	return ts.mk("and", boolSort, a, b)
}

func (ts *TermStore) Or(a, b *Term) *Term {
	if a.isC {
		if a.cu != 0 {
			return ts.tTrue
		}
		return b
	}
	if b.isC {
		if b.cu != 0 {
			return ts.tTrue
		}
		return a
	}
	if a == b {
		return a
	}
	return ts.mk("or", boolSort, a, b)
}

func (ts *TermStore) Ite(c, a, b *Term) *Term {
	if c.isC {
		if c.cu != 0 {
			return a
		}
		return b
	}
	if a == b {
		return a
	}
	if a.sort.k == sBool && a.isC && b.isC {
		if a.cu != 0 && b.cu == 0 {
			return c
		}
		if a.cu == 0 && b.cu != 0 {
			return ts.Not(c)
		}
	}
	return ts.mk("ite", a.sort, c, a, b)
}

func (ts *TermStore) Eq(a, b *Term) *Term {
	if a == b && a.sort.k != sFP64 && a.sort.k != sFP32 {
		return ts.tTrue
	}
	if a.isC && b.isC && a.sort.k != sFP64 && a.sort.k != sFP32 {
		return ts.Bool(a.cu == b.cu)
	}
	if a.sort.k == sFP64 || a.sort.k == sFP32 {
		if a == b {
			return ts.Not(ts.mk("fp.isNaN", boolSort, a))
		}
		return ts.mk("fp.eq", boolSort, a, b)
	}
	// byte-sized ite over constants compared with a constant is common; leave to solver
	if a.id > b.id {
		a, b = b, a
	}
	return ts.mk("=", boolSort, a, b)
}

// ---- bit-vector ops ----

func (ts *TermStore) bvBin(op string, a, b *Term) *Term {
	if a.isC && b.isC {
		if r, ok := foldBV(op, a.cu, b.cu, a.sort.w); ok {
			return ts.BV(r, a.sort.w)
		}
	}
	// a few identities
	switch op {
	case "bvadd", "bvor", "bvxor":
		if a.isC && a.cu == 0 {
			return b
		}
		if b.isC && b.cu == 0 {
			return a
		}
	case "bvsub", "bvshl", "bvlshr", "bvashr":
		if b.isC && b.cu == 0 {
			return a
		}
	case "bvand":
		if a.isC && a.cu == 0 {
			return a
		}
		if b.isC && b.cu == 0 {
			return b
		}
		if a.isC && a.cu == maskW(a.sort.w) {
			return b
		}
		if b.isC && b.cu == maskW(b.sort.w) {
			return a
		}
	case "bvmul":
		if a.isC && a.cu == 1 {
			return b
		}
		if b.isC && b.cu == 1 {
			return a
		}
	}
	return ts.mk(op, a.sort, a, b)
}

func signExt(v uint64, w int) int64 {
	if w >= 64 {
		return int64(v)
	}
	sh := uint(64 - w)
	return int64(v<<sh) >> sh
}

func foldBV(op string, a, b uint64, w int) (uint64, bool) {
	m := maskW(w)
	switch op {
	case "bvadd":
		return (a + b) & m, true
	case "bvsub":
		return (a - b) & m, true
	case "bvmul":
		return (a * b) & m, true
	case "bvand":
		return a & b, true
	case "bvor":
		return a | b, true
	case "bvxor":
		return a ^ b, true
	case "bvshl":
		if b >= uint64(w) {
			return 0, true
		}
		return (a << b) & m, true
	case "bvlshr":
		if b >= uint64(w) {
			return 0, true
		}
		return (a >> b) & m, true
	case "bvashr":
		s := signExt(a, w)
		if b >= uint64(w) {
			b = uint64(w - 1)
		}
		return uint64(s>>b) & m, true
	case "bvudiv":
		if b == 0 {
			return m, true
		}
		return a / b, true
	case "bvurem":
		if b == 0 {
			return a, true
		}
		return a % b, true
	case "bvsdiv":
		if b == 0 {
			return 0, false
		}
		sa, sb := signExt(a, w), signExt(b, w)
		if sb == -1 {
			return uint64(-sa) & m, true
		}
		return uint64(sa/sb) & m, true
	case "bvsrem":
		if b == 0 {
			return 0, false
		}
		sa, sb := signExt(a, w), signExt(b, w)
		if sb == -1 {
			return 0, true
		}
		return uint64(sa%sb) & m, true
	}
	return 0, false
}

func (ts *TermStore) bvCmp(op string, a, b *Term) *Term {
	if a.isC && b.isC {
		w := a.sort.w
		switch op {
		case "bvult":
			return ts.Bool(a.cu < b.cu)
		case "bvule":
			return ts.Bool(a.cu <= b.cu)
		case "bvslt":
			return ts.Bool(signExt(a.cu, w) < signExt(b.cu, w))
		case "bvsle":
			return ts.Bool(signExt(a.cu, w) <= signExt(b.cu, w))
		}
	}
	return ts.mk(op, boolSort, a, b)
}

func (ts *TermStore) bvNot(a *Term) *Term {
	if a.isC {
		return ts.BV(^a.cu, a.sort.w)
	}
	return ts.mk("bvnot", a.sort, a)
}

func (ts *TermStore) bvNeg(a *Term) *Term {
	if a.isC {
		return ts.BV(-a.cu, a.sort.w)
	}
	return ts.mk("bvneg", a.sort, a)
}

// Resize converts a bit-vector to width w, sign- or zero-extending.
func (ts *TermStore) Resize(a *Term, w int, signed bool) *Term {
	aw := a.sort.w
	if aw == w {
		return a
	}
	if a.isC {
		if signed {
			return ts.BV(uint64(signExt(a.cu, aw)), w)
		}
		return ts.BV(a.cu, w)
	}
	if w < aw {
		// extract of zero_extend/concat simplifications
		if (a.op == "zext" || a.op == "sext") && a.args[0].sort.w >= w {
			return ts.Resize(a.args[0], w, false)
		}
		return ts.Extract(a, w-1, 0)
	}
	if signed {
		t := ts.mk(fmt.Sprintf("(_ sign_extend %d)", w-aw), bvSort(w), a)
		return t
	}
	return ts.mk(fmt.Sprintf("(_ zero_extend %d)", w-aw), bvSort(w), a)
}

func (ts *TermStore) Extract(a *Term, hi, lo int) *Term {
	if a.isC {
		return ts.BV(a.cu>>uint(lo), hi-lo+1)
	}
	if lo == 0 && hi == a.sort.w-1 {
		return a
	}
	if x, _, l0, ok := extractParts(a); ok {
		return ts.Extract(x, hi+l0, lo+l0)
	}
	if a.op == "concat" {
		lw := a.args[1].sort.w
		if hi < lw {
			return ts.Extract(a.args[1], hi, lo)
		}
		if lo >= lw {
			return ts.Extract(a.args[0], hi-lw, lo-lw)
		}
	}
	return ts.mk(fmt.Sprintf("(_ extract %d %d)", hi, lo), bvSort(hi-lo+1), a)
}

func extractParts(t *Term) (x *Term, hi, lo int, ok bool) {
	if len(t.args) == 1 && len(t.op) > 11 && t.op[:11] == "(_ extract " {
		var h, l int
		if n, _ := fmt.Sscanf(t.op, "(_ extract %d %d)", &h, &l); n == 2 {
			return t.args[0], h, l, true
		}
	}
	return nil, 0, 0, false
}

func (ts *TermStore) Concat(hi, lo *Term) *Term {
	w := hi.sort.w + lo.sort.w
	if hi.isC && lo.isC && w <= 64 {
		return ts.BV(hi.cu<<uint(lo.sort.w)|lo.cu, w)
	}
	if x1, h1, l1, ok1 := extractParts(hi); ok1 {
		if x2, h2, l2, ok2 := extractParts(lo); ok2 && x1 == x2 && l1 == h2+1 {
			return ts.Extract(x1, h1, l2)
		}
	}
	return ts.mk("concat", bvSort(w), hi, lo)
}

// ---- FP ----

func (ts *TermStore) fpBin(op string, a, b *Term) *Term {
	// op in fp.add fp.sub fp.mul fp.div (rounded RNE)
	return ts.mk(op+" RNE", a.sort, a, b)
}

func (ts *TermStore) fpCmp(op string, a, b *Term) *Term {
	return ts.mk(op, boolSort, a, b)
}

// smtDef renders the definition body of a non-leaf term using child names.
func (t *Term) smtBody() string {
	var sb strings.Builder
	sb.WriteString("(" + t.op)
	for _, a := range t.args {
		sb.WriteString(" " + a.name())
	}
	sb.WriteString(")")
	return sb.String()
}
