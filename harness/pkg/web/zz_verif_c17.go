package web

// C17 — static file serving never escapes its root.
//
// The real StaticFileServer.ServeHTTP and ResponseHelper.SendFile run on URL
// paths / target paths made of symbolic bytes (full byte range: dot segments,
// backslashes, repeated slashes, NULs, percent signs are all included), over a
// model directory tree with symlinks to files and directories inside and
// outside the root. path.Clean, filepath.Join, filepath.EvalSymlinks run from
// their real source; os.Lstat/Stat/Readlink/Open resolve against the tree
// (natively: the same tree built in a temporary directory). Every regular
// file's content names its own physical location, so what the response body
// carries says which file was really read.

import (
	"net/http"
	"net/url"

	"github.com/glyphlang/glyph/internal/zzverif"
)

type zzRec struct {
	hdr    http.Header
	status int
	wrote  bool
	body   []byte
}

func (r *zzRec) Header() http.Header {
	if r.hdr == nil {
		r.hdr = http.Header{}
	}
	return r.hdr
}
func (r *zzRec) Write(b []byte) (int, error) {
	if !r.wrote {
		r.wrote, r.status = true, 200
	}
	r.body = append(r.body, b...)
	return len(b), nil
}
func (r *zzRec) WriteHeader(code int) {
	if !r.wrote {
		r.wrote, r.status = true, code
	}
}

const zzRoot = "/s/w"

// zzTree declares the layout. Names are one or two bytes so that short
// symbolic paths reach every entry.
func zzTree() {
	zzverif.FSReset()
	file := func(p string) { zzverif.FSFile(p, "FILE:"+p) }
	file("/s/w/a")
	file("/s/w/d/b")
	file("/s/w/index.html")
	file("/s/w/d/index.html")
	file("/s/w2/x") // sibling directory sharing the root's name as a prefix
	file("/s/w2/index.html")
	file("/s/W/x") // sibling directory whose name differs from the root's only by letter case
	file("/o/p")   // outside
	file("/o/index.html")
	zzverif.FSDir("/s/w/n")                                      // directory without index
	zzverif.FSSymlink("/s/w/li", "a")                            // link -> file inside
	zzverif.FSSymlink("/s/w/ld", "d")                            // link -> directory inside
	zzverif.FSSymlink("/s/w/lo", zzverif.FSPath("/o/p"))         // link -> file outside (absolute)
	zzverif.FSSymlink("/s/w/lq", zzverif.FSPath("/o"))           // link -> directory outside (absolute)
	zzverif.FSSymlink("/s/w/lr", "../w2")                        // link -> sibling directory (relative)
	zzverif.FSSymlink("/s/w/lc", "../W")                         // link -> the case-sibling directory
	zzverif.FSSymlink("/s/w/lp", "lp")                           // loop
	zzverif.FSSymlink("/s/w/e/index.html", zzverif.FSPath("/o/p")) // directory whose index file is a link outside
	zzverif.FSSymlink("/s/rl", "w")                              // the root reached through a link
	zzverif.FSDir("/cwd")
}

func zzHasPrefix(s, p string) bool { return len(s) >= len(p) && s[:len(p)] == p }

// zzCheckResponse is the property: content only from regular files whose
// physical location is under the root; everything else 403/404/405, no content.
func zzCheckResponse(method string, rec *zzRec) {
	body := string(rec.body)
	if rec.status == 200 {
		zzverif.Assert(method == "GET" || method == "HEAD", "c17-content-served-for-unsafe-method")
		if method == "GET" {
			zzverif.Assert(zzHasPrefix(body, "FILE:"), "c17-200-without-file-content")
			zzverif.Assert(zzHasPrefix(body[5:], zzRoot+"/"), "c17-served-file-outside-root")
		}
		return
	}
	zzverif.Assert(rec.status == 403 || rec.status == 404 || rec.status == 405, "c17-refusal-with-unexpected-status")
	zzverif.Assert(!zzHasPrefix(body, "FILE:"), "c17-file-content-in-refusal")
}

func zzStatic(n int, viaLinkRoot bool) {
	zzTree()
	pfx := []string{"", "/s", "/s/"}[zzverif.Choice("mount prefix", 3)]
	root := zzverif.FSPath(zzRoot)
	if viaLinkRoot {
		root = zzverif.FSPath("/s/rl")
	}
	srv, err := NewStaticFileServer(root, WithPrefix(pfx))
	if err != nil {
		zzverif.Fail("c17-server-construction-failed")
	}
	method := []string{"GET", "HEAD", "POST"}[zzverif.Choice("method", 3)]
	p := zzverif.String("url path", n)
	rec := &zzRec{}
	srv.ServeHTTP(rec, &http.Request{Method: method, URL: &url.URL{Path: p}, Header: http.Header{}})
	zzCheckResponse(method, rec)
	// files that are inside the root are served (the check cannot be met by refusing everything)
	if method == "GET" {
		mount := pfx
		if mount == "/s/" {
			mount = "/s"
		}
		if p == mount+"/a" {
			zzverif.Assert(rec.status == 200 && string(rec.body) == "FILE:/s/w/a", "c17-file-inside-root-not-served")
		}
		if p == mount+"/d/b" {
			zzverif.Assert(rec.status == 200 && string(rec.body) == "FILE:/s/w/d/b", "c17-file-inside-root-not-served")
		}
		if p == mount+"/li" {
			zzverif.Assert(rec.status == 200 && string(rec.body) == "FILE:/s/w/a", "c17-link-inside-root-not-served")
		}
		if p == mount+"/" {
			zzverif.Assert(rec.status == 200 && string(rec.body) == "FILE:/s/w/index.html", "c17-index-not-served")
		}
	}
	zzverif.Reach("c17-static")
}

func VerifC17_Static4()     { zzStatic(4, false) }
func VerifC17_Static6()     { zzStatic(6, false) }
func VerifC17_Static8()     { zzStatic(8, false) }
func VerifC17_LinkedRoot5() { zzStatic(5, true) }

// The tree changes while the server runs (a deploy, an attacker with write
// access to a subdirectory): every request is confined on the tree as it is
// when the request is served. One server instance, a request, a change, the
// same request again.
func VerifC17_TreeChangesBetweenRequests() {
	zzTree()
	srv, err := NewStaticFileServer(zzverif.FSPath(zzRoot))
	if err != nil {
		zzverif.Fail("c17-server-construction-failed")
	}
	target := []string{"/a", "/d/b", "/d/", "/li"}[zzverif.Choice("target", 4)]
	get := func() *zzRec {
		rec := &zzRec{}
		srv.ServeHTTP(rec, &http.Request{Method: "GET", URL: &url.URL{Path: target}, Header: http.Header{}})
		return rec
	}
	first := get()
	zzCheckResponse("GET", first)
	switch zzverif.Choice("change", 4) {
	case 0: // the file becomes a link to a file outside
		zzverif.FSRemove("/s/w/a")
		zzverif.FSSymlink("/s/w/a", zzverif.FSPath("/o/p"))
	case 1: // a file below a directory becomes a link outside
		zzverif.FSRemove("/s/w/d/b")
		zzverif.FSSymlink("/s/w/d/b", zzverif.FSPath("/o/p"))
	case 2: // the directory's index becomes a link outside
		zzverif.FSRemove("/s/w/d/index.html")
		zzverif.FSSymlink("/s/w/d/index.html", zzverif.FSPath("/o/index.html"))
	default: // an in-root link is re-pointed outside
		zzverif.FSRemove("/s/w/li")
		zzverif.FSSymlink("/s/w/li", zzverif.FSPath("/o/p"))
	}
	second := get()
	zzCheckResponse("GET", second)
	zzverif.Reach("c17-tree-change")
}

func zzSendFile(n int) {
	zzTree()
	zzverif.FSChdir(zzRoot)
	root := []string{zzverif.FSPath(zzRoot), ""}[zzverif.Choice("root dir", 2)]
	target := zzverif.String("target", n)
	if zzverif.Bool("absolute target") {
		target = zzverif.FSPath("/") + target
	}
	rec := &zzRec{}
	rh := &ResponseHelper{}
	err := rh.SendFile(rec, &http.Request{Method: "GET", URL: &url.URL{Path: "/x"}, Header: http.Header{}}, root, target)
	if err != nil {
		zzverif.Assert(!rec.wrote, "c17-sendfile-error-after-writing")
	} else {
		zzverif.Assert(rec.status == 200, "c17-sendfile-nil-without-content")
		zzCheckResponse("GET", rec)
	}
	if target == "a" || target == "./a" {
		zzverif.Assert(err == nil && string(rec.body) == "FILE:/s/w/a", "c17-sendfile-file-inside-root-not-served")
	}
	zzverif.Reach("c17-sendfile")
}

func VerifC17_SendFile4() { zzSendFile(4) }
func VerifC17_SendFile6() { zzSendFile(6) }

func VerifC17_Twin() {
	zzTree()
	srv, _ := NewStaticFileServer(zzverif.FSPath(zzRoot))
	rec := &zzRec{}
	srv.ServeHTTP(rec, &http.Request{Method: "GET", URL: &url.URL{Path: "/a"}, Header: http.Header{}})
	zzverif.Assert(rec.status != 200, "c17-twin")
	zzverif.Reach("c17-twin")
}
