// Copyright 2013 The Go Authors. All rights reserved.
// Use of this source code is governed by a BSD-style
// license that can be found in the LICENSE file.

package main

// Emulated "reflect" package.
//
// We completely replace the built-in "reflect" package.
// The only thing clients can depend upon are that reflect.Type is an
// interface and reflect.Value is an (opaque) struct.

import (
	"fmt"
	"go/token"
	"go/types"
	"reflect"
	"unsafe"

	"golang.org/x/tools/go/ssa"
)

type opaqueType struct {
	types.Type
	name string
}

func (t *opaqueType) String() string { return t.name }

// A bogus "reflect" type-checker package.  Shared across interpreters.
var reflectTypesPackage = types.NewPackage("reflect", "reflect")

// rtype is the concrete type the interpreter uses to implement the
// reflect.Type interface.
//
// type rtype <opaque>
var rtypeType = makeNamedType("rtype", &opaqueType{nil, "rtype"})

// error is an (interpreted) named type whose underlying type is string.
// The interpreter uses it for all implementations of the built-in error
// interface that it creates.
// We put it in the "reflect" package for expedience.
//
// type error string
var errorType = makeNamedType("error", &opaqueType{nil, "error"})

func makeNamedType(name string, underlying types.Type) *types.Named {
	obj := types.NewTypeName(token.NoPos, reflectTypesPackage, name, nil)
	return types.NewNamed(obj, underlying, nil)
}

func makeReflectValue(t types.Type, v value) value {
	return structure{rtype{t}, v}
}

// Given a reflect.Value, returns its rtype.
func rV2T(v value) rtype {
	return v.(structure)[0].(rtype)
}

// Given a reflect.Value, returns the underlying interpreter value.
func rV2V(v value) value {
	return v.(structure)[1]
}

// makeReflectType boxes up an rtype in a reflect.Type interface.
func makeReflectType(rt rtype) value {
	return iface{rtypeType, rt}
}

func ext۰reflect۰rtype۰Bits(fr *frame, args []value) value {
	// Signature: func (t reflect.rtype) int
	rt := args[0].(rtype).t
	basic, ok := rt.Underlying().(*types.Basic)
	if !ok {
		panic(fmt.Sprintf("reflect.Type.Bits(%T): non-basic type", rt))
	}
	return int(fr.i.sizes.Sizeof(basic)) * 8
}

func ext۰reflect۰rtype۰Elem(fr *frame, args []value) value {
	// Signature: func (t reflect.rtype) reflect.Type
	return makeReflectType(rtype{args[0].(rtype).t.Underlying().(interface {
		Elem() types.Type
	}).Elem()})
}

func ext۰reflect۰rtype۰Field(fr *frame, args []value) value {
	// Signature: func (t reflect.rtype, i int) reflect.StructField
	st := args[0].(rtype).t.Underlying().(*types.Struct)
	i := args[1].(int)
	f := st.Field(i)
	return structure{
		f.Name(),
		f.Pkg().Path(),
		makeReflectType(rtype{f.Type()}),
		st.Tag(i),
		0,         // TODO(adonovan): offset
		[]value{}, // TODO(adonovan): indices
		f.Anonymous(),
	}
}

func ext۰reflect۰rtype۰In(fr *frame, args []value) value {
	// Signature: func (t reflect.rtype, i int) int
	i := args[1].(int)
	return makeReflectType(rtype{args[0].(rtype).t.(*types.Signature).Params().At(i).Type()})
}

func ext۰reflect۰rtype۰Kind(fr *frame, args []value) value {
	// Signature: func (t reflect.rtype) uint
	return uint(reflectKind(args[0].(rtype).t))
}

func ext۰reflect۰rtype۰NumField(fr *frame, args []value) value {
	// Signature: func (t reflect.rtype) int
	return args[0].(rtype).t.Underlying().(*types.Struct).NumFields()
}

func ext۰reflect۰rtype۰NumIn(fr *frame, args []value) value {
	// Signature: func (t reflect.rtype) int
	return args[0].(rtype).t.Underlying().(*types.Signature).Params().Len()
}

func ext۰reflect۰rtype۰NumMethod(fr *frame, args []value) value {
	// Signature: func (t reflect.rtype) int
	return fr.i.prog.MethodSets.MethodSet(args[0].(rtype).t).Len() // beware: falsely reports generic methods
}

func ext۰reflect۰rtype۰NumOut(fr *frame, args []value) value {
	// Signature: func (t reflect.rtype) int
	return args[0].(rtype).t.Underlying().(*types.Signature).Results().Len()
}

func ext۰reflect۰rtype۰Out(fr *frame, args []value) value {
	// Signature: func (t reflect.rtype, i int) int
	i := args[1].(int)
	return makeReflectType(rtype{args[0].(rtype).t.Underlying().(*types.Signature).Results().At(i).Type()})
}

func ext۰reflect۰rtype۰Size(fr *frame, args []value) value {
	// Signature: func (t reflect.rtype) uintptr
	return uintptr(fr.i.sizes.Sizeof(args[0].(rtype).t))
}

func ext۰reflect۰rtype۰String(fr *frame, args []value) value {
	// Signature: func (t reflect.rtype) string
	return args[0].(rtype).t.String()
}

func ext۰reflect۰New(fr *frame, args []value) value {
	// Signature: func (t reflect.Type) reflect.Value
	t := args[0].(iface).v.(rtype).t
	alloc := zero(t)
	return makeReflectValue(types.NewPointer(t), &alloc)
}

func ext۰reflect۰SliceOf(fr *frame, args []value) value {
	// Signature: func (t reflect.rtype) Type
	return makeReflectType(rtype{types.NewSlice(args[0].(iface).v.(rtype).t)})
}

func ext۰reflect۰TypeOf(fr *frame, args []value) value {
	// Signature: func (t reflect.rtype) Type
	return makeReflectType(rtype{args[0].(iface).t})
}

func ext۰reflect۰ValueOf(fr *frame, args []value) value {
	// Signature: func (interface{}) reflect.Value
	itf := args[0].(iface)
	return makeReflectValue(itf.t, itf.v)
}

func ext۰reflect۰Zero(fr *frame, args []value) value {
	// Signature: func (t reflect.Type) reflect.Value
	t := args[0].(iface).v.(rtype).t
	return makeReflectValue(t, zero(t))
}

func reflectKind(t types.Type) reflect.Kind {
	switch t := t.(type) {
	case *types.Named, *types.Alias:
		return reflectKind(t.Underlying())
	case *types.Basic:
		switch t.Kind() {
		case types.Bool:
			return reflect.Bool
		case types.Int:
			return reflect.Int
		case types.Int8:
			return reflect.Int8
		case types.Int16:
			return reflect.Int16
		case types.Int32:
			return reflect.Int32
		case types.Int64:
			return reflect.Int64
		case types.Uint:
			return reflect.Uint
		case types.Uint8:
			return reflect.Uint8
		case types.Uint16:
			return reflect.Uint16
		case types.Uint32:
			return reflect.Uint32
		case types.Uint64:
			return reflect.Uint64
		case types.Uintptr:
			return reflect.Uintptr
		case types.Float32:
			return reflect.Float32
		case types.Float64:
			return reflect.Float64
		case types.Complex64:
			return reflect.Complex64
		case types.Complex128:
			return reflect.Complex128
		case types.String:
			return reflect.String
		case types.UnsafePointer:
			return reflect.UnsafePointer
		}
	case *types.Array:
		return reflect.Array
	case *types.Chan:
		return reflect.Chan
	case *types.Signature:
		return reflect.Func
	case *types.Interface:
		return reflect.Interface
	case *types.Map:
		return reflect.Map
	case *types.Pointer:
		return reflect.Pointer
	case *types.Slice:
		return reflect.Slice
	case *types.Struct:
		return reflect.Struct
	}
	panic(fmt.Sprint("unexpected type: ", t))
}

func ext۰reflect۰Value۰Kind(fr *frame, args []value) value {
	// Signature: func (reflect.Value) uint
	return uint(reflectKind(rV2T(args[0]).t))
}

func ext۰reflect۰Value۰String(fr *frame, args []value) value {
	// Signature: func (reflect.Value) string
	return toString(rV2V(args[0]))
}

func ext۰reflect۰Value۰Type(fr *frame, args []value) value {
	// Signature: func (reflect.Value) reflect.Type
	return makeReflectType(rV2T(args[0]))
}

func ext۰reflect۰Value۰Uint(fr *frame, args []value) value {
	// Signature: func (reflect.Value) uint64
	switch v := rV2V(args[0]).(type) {
	case uint:
		return uint64(v)
	case uint8:
		return uint64(v)
	case uint16:
		return uint64(v)
	case uint32:
		return uint64(v)
	case uint64:
		return uint64(v)
	case uintptr:
		return uint64(v)
	}
	panic("reflect.Value.Uint")
}

func ext۰reflect۰Value۰Len(fr *frame, args []value) value {
	switch v := rV2V(args[0]).(type) {
	case string:
		return len(v)
	case symstr:
		return len(v)
	case array:
		return len(v)
	case *chanv:
		return v.length()
	case []value:
		return len(v)
	case *omap:
		return v.len()
	default:
		panic(engineErr{fmt.Sprintf("reflect.(Value).Len(%v)", v)})
	}
}

func ext۰reflect۰Value۰MapIndex(fr *frame, args []value) value {
	tValue := rV2T(args[0]).t.Underlying().(*types.Map).Elem()
	k := rV2V(args[1])
	m := rV2V(args[0]).(*omap)
	if e := m.find(fr, k); e != nil {
		return makeReflectValue(tValue, e.val)
	}
	return makeReflectValue(nil, nil)
}

func ext۰reflect۰Value۰MapKeys(fr *frame, args []value) value {
	var keys []value
	tKey := rV2T(args[0]).t.Underlying().(*types.Map).Key()
	m := rV2V(args[0]).(*omap)
	if m != nil {
		for _, e := range m.entries {
			if !e.deleted {
				keys = append(keys, makeReflectValue(tKey, e.key))
			}
		}
	}
	return keys
}

func ext۰reflect۰Value۰NumField(fr *frame, args []value) value {
	// Signature: func (reflect.Value) int
	return len(rV2V(args[0]).(structure))
}

func ext۰reflect۰Value۰NumMethod(fr *frame, args []value) value {
	// Signature: func (reflect.Value) int
	return fr.i.prog.MethodSets.MethodSet(rV2T(args[0]).t).Len()
}

func ext۰reflect۰Value۰Pointer(fr *frame, args []value) value {
	// Signature: func (v reflect.Value) uintptr
	switch v := rV2V(args[0]).(type) {
	case *value:
		return uintptr(unsafe.Pointer(v))
	case *chanv:
		return reflect.ValueOf(v).Pointer()
	case []value:
		return reflect.ValueOf(v).Pointer()
	case *omap:
		return reflect.ValueOf(v).Pointer()
	case *ssa.Function:
		return uintptr(unsafe.Pointer(v))
	case *closure:
		return uintptr(unsafe.Pointer(v))
	default:
		panic(fmt.Sprintf("reflect.(Value).Pointer(%T)", v))
	}
}

func ext۰reflect۰Value۰Index(fr *frame, args []value) value {
	// Signature: func (v reflect.Value, i int) Value
	i := args[1].(int)
	t := rV2T(args[0]).t.Underlying()
	switch v := rV2V(args[0]).(type) {
	case array:
		return makeReflectValue(t.(*types.Array).Elem(), v[i])
	case []value:
		return makeReflectValue(t.(*types.Slice).Elem(), v[i])
	default:
		panic(fmt.Sprintf("reflect.(Value).Index(%T)", v))
	}
}

func ext۰reflect۰Value۰Bool(fr *frame, args []value) value {
	// Signature: func (reflect.Value) bool
	return rV2V(args[0]).(bool)
}

func ext۰reflect۰Value۰CanAddr(fr *frame, args []value) value {
	// Signature: func (v reflect.Value) bool
	// Always false for our representation.
	return false
}

func ext۰reflect۰Value۰CanInterface(fr *frame, args []value) value {
	// Signature: func (v reflect.Value) bool
	// Always true for our representation.
	return true
}

func ext۰reflect۰Value۰Elem(fr *frame, args []value) value {
	// Signature: func (v reflect.Value) reflect.Value
	switch x := rV2V(args[0]).(type) {
	case iface:
		return makeReflectValue(x.t, x.v)
	case *value:
		var v value
		if x != nil {
			v = *x
		}
		return makeReflectValue(rV2T(args[0]).t.Underlying().(*types.Pointer).Elem(), v)
	default:
		panic(fmt.Sprintf("reflect.(Value).Elem(%T)", x))
	}
}

func ext۰reflect۰Value۰Field(fr *frame, args []value) value {
	// Signature: func (v reflect.Value, i int) reflect.Value
	v := args[0]
	i := args[1].(int)
	return makeReflectValue(rV2T(v).t.Underlying().(*types.Struct).Field(i).Type(), rV2V(v).(structure)[i])
}

func ext۰reflect۰Value۰Float(fr *frame, args []value) value {
	// Signature: func (reflect.Value) float64
	switch v := rV2V(args[0]).(type) {
	case float32:
		return float64(v)
	case float64:
		return float64(v)
	}
	panic("reflect.Value.Float")
}

func ext۰reflect۰Value۰Interface(fr *frame, args []value) value {
	// Signature: func (v reflect.Value) interface{}
	return ext۰reflect۰valueInterface(args)
}

func ext۰reflect۰Value۰Int(fr *frame, args []value) value {
	// Signature: func (reflect.Value) int64
	switch x := rV2V(args[0]).(type) {
	case int:
		return int64(x)
	case int8:
		return int64(x)
	case int16:
		return int64(x)
	case int32:
		return int64(x)
	case int64:
		return x
	default:
		panic(fmt.Sprintf("reflect.(Value).Int(%T)", x))
	}
}

func ext۰reflect۰Value۰IsNil(fr *frame, args []value) value {
	// Signature: func (reflect.Value) bool
	switch x := rV2V(args[0]).(type) {
	case *value:
		return x == nil
	case *chanv:
		return x == nil
	case *omap:
		return x == nil
	case iface:
		return x.t == nil
	case []value:
		return x == nil
	case *ssa.Function:
		return x == nil
	case *ssa.Builtin:
		return x == nil
	case *closure:
		return x == nil
	default:
		panic(fmt.Sprintf("reflect.(Value).IsNil(%T)", x))
	}
}

func ext۰reflect۰Value۰IsValid(fr *frame, args []value) value {
	// Signature: func (reflect.Value) bool
	return rV2V(args[0]) != nil
}

func ext۰reflect۰Value۰Set(fr *frame, args []value) value {
	// TODO(adonovan): implement.
	return nil
}

func ext۰reflect۰valueInterface(args []value) value {
	// Signature: func (v reflect.Value, safe bool) interface{}
	v := args[0].(structure)
	return iface{rV2T(v).t, rV2V(v)}
}

func ext۰reflect۰error۰Error(fr *frame, args []value) value {
	return args[0]
}

// newMethod creates a new method of the specified name, package and receiver type.
func newMethod(pkg *ssa.Package, recvType types.Type, name string) *ssa.Function {
	// TODO(adonovan): fix: hack: currently the only part of Signature
	// that is needed is the "pointerness" of Recv.Type, and for
	// now, we'll set it to always be false since we're only
	// concerned with rtype.  Encapsulate this better.
	sig := types.NewSignatureType(types.NewParam(token.NoPos, nil, "recv", recvType), nil, nil, nil, nil, false)
	fn := pkg.Prog.NewFunction(name, sig, "fake reflect method")
	fn.Pkg = pkg
	return fn
}

var sharedRtypeMethods, sharedErrorMethods methodSet
var sharedReflectPackage *ssa.Package

type reflectIniter struct {
	prog           *ssa.Program
	reflectPackage *ssa.Package
	rtypeMethods   methodSet
	errorMethods   methodSet
}

func initReflectShared(prog *ssa.Program) {
	i := &reflectIniter{prog: prog}
	initReflect(i)
	sharedRtypeMethods = i.rtypeMethods
	sharedErrorMethods = i.errorMethods
	sharedReflectPackage = i.reflectPackage
}

func initReflect(i *reflectIniter) {
	i.reflectPackage = &ssa.Package{
		Prog:    i.prog,
		Pkg:     reflectTypesPackage,
		Members: make(map[string]ssa.Member),
	}

	// Clobber the type-checker's notion of reflect.Value's
	// underlying type so that it more closely matches the fake one
	// (at least in the number of fields---we lie about the type of
	// the rtype field).
	//
	// We must ensure that calls to (ssa.Value).Type() return the
	// fake type so that correct "shape" is used when allocating
	// variables, making zero values, loading, and storing.
	//
	// TODO(adonovan): obviously this is a hack.  We need a cleaner
	// way to fake the reflect package (almost---DeepEqual is fine).
	// One approach would be not to even load its source code, but
	// provide fake source files.  This would guarantee that no bad
	// information leaks into other packages.
	if r := i.prog.ImportedPackage("reflect"); r != nil {
		rV := r.Pkg.Scope().Lookup("Value").Type().(*types.Named)

		// delete bodies of the old methods
		mset := i.prog.MethodSets.MethodSet(rV)
		for method := range mset.Methods() {
			i.prog.MethodValue(method).Blocks = nil
		}

		tEface := types.NewInterface(nil, nil).Complete()
		rV.SetUnderlying(types.NewStruct([]*types.Var{
			types.NewField(token.NoPos, r.Pkg, "t", tEface, false), // a lie
			types.NewField(token.NoPos, r.Pkg, "v", tEface, false),
		}, nil))
	}

	i.rtypeMethods = methodSet{
		"Bits":      newMethod(i.reflectPackage, rtypeType, "Bits"),
		"Elem":      newMethod(i.reflectPackage, rtypeType, "Elem"),
		"Field":     newMethod(i.reflectPackage, rtypeType, "Field"),
		"In":        newMethod(i.reflectPackage, rtypeType, "In"),
		"Kind":      newMethod(i.reflectPackage, rtypeType, "Kind"),
		"NumField":  newMethod(i.reflectPackage, rtypeType, "NumField"),
		"NumIn":     newMethod(i.reflectPackage, rtypeType, "NumIn"),
		"NumMethod": newMethod(i.reflectPackage, rtypeType, "NumMethod"),
		"NumOut":    newMethod(i.reflectPackage, rtypeType, "NumOut"),
		"Out":       newMethod(i.reflectPackage, rtypeType, "Out"),
		"Size":      newMethod(i.reflectPackage, rtypeType, "Size"),
		"String":    newMethod(i.reflectPackage, rtypeType, "String"),
		"Comparable":   newMethod(i.reflectPackage, rtypeType, "Comparable"),
		"IsVariadic":   newMethod(i.reflectPackage, rtypeType, "IsVariadic"),
		"Implements":   newMethod(i.reflectPackage, rtypeType, "Implements"),
		"Method":       newMethod(i.reflectPackage, rtypeType, "Method"),
		"MethodByName": newMethod(i.reflectPackage, rtypeType, "MethodByName"),
		"Name":         newMethod(i.reflectPackage, rtypeType, "Name"),
		"AssignableTo": newMethod(i.reflectPackage, rtypeType, "AssignableTo"),
	}
	i.errorMethods = methodSet{
		"Error": newMethod(i.reflectPackage, errorType, "Error"),
	}
}
