// Package zzc18 holds the C18 harnesses: source rewriting tools (fmt, expand,
// compact) preserve the program.
package zzc18

import (
	"github.com/glyphlang/glyph/internal/zzverif"
	"github.com/glyphlang/glyph/pkg/formatter"
	"github.com/glyphlang/glyph/pkg/parser"
)

// ---------------------------------------------------------------------------
// O1: glyph fmt is idempotent on every byte string.

func zzIdem(src string) {
	zzverif.Obligation("CanonicalizeSource returns")
	once := formatter.CanonicalizeSource(src)
	twice := formatter.CanonicalizeSource(once)
	zzverif.Assert(once == twice, "fmt-not-idempotent")
	zzverif.Reach("idem")
}

// every byte string of length n
func VerifC18_Idem3() { zzIdem(zzverif.String("src", 3)) }
func VerifC18_Idem4() { zzIdem(zzverif.String("src", 4)) }

// longer strings over the layout alphabet (line ends, blanks, brackets, quotes,
// escapes, comment starters, a letter; EF BB BF = BOM; C2 85 / C2 A0 = NEL / NBSP)
const zzLayout = "\n\r {}\"\\#a"
const zzLayout2 = "\n\t[)('/\\a"
const zzLayoutHi = "\n a\xef\xbb\xbf\xc2\x85"

func VerifC18_IdemLayout4() { zzIdem(zzverif.StringFrom("src", 4, zzLayout)) }
func VerifC18_IdemLayout5() { zzIdem(zzverif.StringFrom("src", 5, zzLayout)) }
func VerifC18_IdemLayout6() { zzIdem(zzverif.StringFrom("src", 6, zzLayout)) }
func VerifC18_IdemLayoutB4() { zzIdem(zzverif.StringFrom("src", 4, zzLayout2)) }
func VerifC18_IdemLayoutB5() { zzIdem(zzverif.StringFrom("src", 5, zzLayout2)) }
func VerifC18_IdemHigh4()    { zzIdem(zzverif.StringFrom("src", 4, zzLayoutHi)) }
func VerifC18_IdemHigh7()    { zzIdem(zzverif.StringFrom("src", 7, "a\xef\xbb\xbf")) }

// a leading BOM followed by symbolic bytes (the BOM strip is the only
// non-line-local step of the formatter)
func VerifC18_IdemBOM4() { zzIdem("\xef\xbb\xbf" + zzverif.StringFrom("src", 4, zzLayout)) }

// ---------------------------------------------------------------------------
// O2: glyph fmt changes layout only: when the lexer accepts the source, it
// accepts the formatted text and the token sequences agree. Layout = blank
// lines may be dropped and a final newline added, so runs of NEWLINE tokens are
// collapsed and leading/trailing NEWLINEs ignored; nothing else is forgiven.

type zzTok struct {
	t parser.TokenType
	l string
}

func zzTokens(src string) ([]zzTok, bool) {
	toks, err := parser.NewLexer(src).Tokenize()
	if err != nil {
		return nil, false
	}
	var out []zzTok
	for _, t := range toks {
		if t.Type == parser.EOF {
			break
		}
		if t.Type == parser.NEWLINE {
			if len(out) == 0 || out[len(out)-1].t == parser.NEWLINE {
				continue
			}
		}
		out = append(out, zzTok{t.Type, t.Literal})
	}
	for len(out) > 0 && out[len(out)-1].t == parser.NEWLINE {
		out = out[:len(out)-1]
	}
	return out, true
}

func zzLayoutOnly(src string) {
	zzverif.Obligation("Tokenize and CanonicalizeSource return")
	before, ok := zzTokens(src)
	if !ok {
		zzverif.Reach("rejected")
		return
	}
	after, ok2 := zzTokens(formatter.CanonicalizeSource(src))
	zzverif.Assert(ok2, "fmt-output-rejected-by-lexer")
	same := len(before) == len(after)
	if same {
		for k := range before {
			if before[k].t != after[k].t || before[k].l != after[k].l {
				same = false
				break
			}
		}
	}
	zzverif.Assert(same, "fmt-changed-token-sequence")
	zzverif.Reach("layout")
}

func VerifC18_Tokens2() { zzLayoutOnly(zzverif.String("src", 2)) }
func VerifC18_Tokens3() { zzLayoutOnly(zzverif.String("src", 3)) }

const zzTokAlpha = "\n\r {\"#\\a"

func VerifC18_TokensLayout4() { zzLayoutOnly(zzverif.StringFrom("src", 4, zzTokAlpha)) }
func VerifC18_TokensLayout5() { zzLayoutOnly(zzverif.StringFrom("src", 5, zzTokAlpha)) }

// a route whose body lines are symbolic
func VerifC18_TokensBody3() {
	zzLayoutOnly("@ GET /x {\r\n  $ s = " + zzverif.StringFrom("b", 3, zzTokAlpha) + "\n}\n")
}

func VerifC18_Twin() {
	src := zzverif.StringFrom("src", 3, zzLayout)
	once := formatter.CanonicalizeSource(src)
	zzverif.Assert(once == src, "twin")
	zzverif.Reach("twin")
}

// ---------------------------------------------------------------------------
// O3: expand / compact round trip. Programs come from templates in which one
// identifier W is a symbolic byte string (lowercase letters, length 3..6: the
// solver finds the spellings that collide with expanded-syntax keywords) and,
// in the "sigil" templates, the first byte of a continuation line is a symbolic
// symbol character. Whenever the compact parser accepts the program:
//   parseExpanded(expand(src)) == parse(src)   and
//   parse(compact(expand(src))) == parse(src)   (trees compared without positions)

var zzExpandedKeywords = []string{"route", "type", "let", "return", "middleware", "use", "expects",
	"validate", "handle", "cron", "command", "queue", "func"}

func zzParseCompact(src string) (any, bool) {
	toks, err := parser.NewLexer(src).Tokenize()
	if err != nil {
		return nil, false
	}
	m, err := parser.NewParser(toks).Parse()
	if err != nil {
		return nil, false
	}
	return m, true
}

func zzParseExpanded(src string) (any, bool) {
	toks, err := parser.NewExpandedLexer(src).Tokenize()
	if err != nil {
		return nil, false
	}
	m, err := parser.NewParser(toks).Parse()
	if err != nil {
		return nil, false
	}
	return m, true
}

func zzRoundTrip(tmpl string, src string, id string) {
	zzverif.Obligation("expand/compact/parse return")
	m0, ok := zzParseCompact(src)
	if !ok {
		zzverif.Reach("rejected")
		return
	}
	ex := formatter.ExpandSource(src)
	m1, ok1 := zzParseExpanded(ex)
	if !ok1 {
		zzverif.Fail("roundtrip " + tmpl + " id=" + id + " expanded-text-rejected")
	} else {
		zzverif.Assert(zzverif.DeepEqualIgnoring(m0, m1, "Pos"), "roundtrip "+tmpl+" id="+id+" expanded-text-parses-to-another-tree")
	}
	back := formatter.CompactSource(ex)
	m2, ok2 := zzParseCompact(back)
	if !ok2 {
		zzverif.Fail("roundtrip " + tmpl + " id=" + id + " compact(expand)-rejected")
	} else {
		zzverif.Assert(zzverif.DeepEqualIgnoring(m0, m2, "Pos"), "roundtrip "+tmpl+" id="+id+" compact(expand)-parses-to-another-tree")
	}
	zzverif.Reach("roundtrip")
}

const zzLetters = "abcdefghijklmnopqrstuvwxyz"

// zzWord returns a symbolic identifier of length n and its class: the keyword
// it spells, or "other".
func zzWord(n int) (string, string) {
	w := zzverif.StringFrom("w", n, zzLetters)
	for _, kw := range zzExpandedKeywords {
		if w == kw {
			return w, kw
		}
	}
	return w, "other"
}

type zzTemplate struct{ name, pre, post string }

var zzIdentTemplates = []zzTemplate{
	{"type-field", ": T {\n  ", ": str!\n}\n"},
	{"let-name", "@ GET /x {\n  $ ", " = 1\n  > 1\n}\n"},
	{"object-field-inline", "@ GET /x {\n  > {", ": 1}\n}\n"},
	{"object-field-line-start", "@ GET /x {\n  $ o = {\n    ", ": 1\n  }\n  > o\n}\n"},
	{"reassign-line-start", "@ GET /x {\n  $ v = 1\n  ", " = 2\n  > 1\n}\n"},
	{"path-segment", "@ GET /", " {\n  > 1\n}\n"},
	{"field-access", "@ GET /x {\n  $ o = {a: 1}\n  > o.", "\n}\n"},
	{"inside-string", "@ GET /x {\n  $ s = \"", " > : $\"\n  > s\n}\n"},
	{"call-name", "@ GET /x {\n  > ", "(1)\n}\n"},
	{"inside-comment", "@ GET /x {\n  # ", " > 1\n  > 1\n}\n"},
	{"type-name", ": ", " {\n  a: int\n}\n"},
	{"path-param", "@ GET /x/:", " {\n  > 1\n}\n"},
}

func zzIdentRoundTrip(n int) {
	t := zzIdentTemplates[zzverif.Choice("template", len(zzIdentTemplates))]
	w, class := zzWord(n)
	zzRoundTrip(t.name, t.pre+w+t.post, class)
}

func VerifC18_RoundTripIdent3() { zzIdentRoundTrip(3) }
func VerifC18_RoundTripIdent4() { zzIdentRoundTrip(4) }
func VerifC18_RoundTripIdent5() { zzIdentRoundTrip(5) }
func VerifC18_RoundTripIdent6() { zzIdentRoundTrip(6) }
func VerifC18_RoundTripIdent7() { zzIdentRoundTrip(7) }
func VerifC18_RoundTripIdent8() { zzIdentRoundTrip(8) }
func VerifC18_RoundTripIdent10() { zzIdentRoundTrip(10) }

// a command with a flag parameter ("--name") whose name is symbolic: the flag
// stays a flag, with that name, through expand and compact
func VerifC18_RoundTripFlag() {
	w := zzverif.StringFrom("w", 2, zzLetters)
	short := []string{"--", "-"}[zzverif.Choice("dashes", 2)]
	zzRoundTrip("command-flag", "! greet name: str! "+short+w+": bool = false {\n  > name\n}\n", "other")
}

// a symbolic symbol character at the start of a line, in contexts where it is
// (or is not) a statement sigil
const zzSigils = "@:$>+%<?~*!&=-"

var zzSigilTemplates = []zzTemplate{
	{"stmt", "@ GET /x {\n  $ a = 1\n  ", " a\n}\n"},
	{"array-element", "@ GET /x {\n  $ a = [\n    1,\n    ", "2\n  ]\n  > a\n}\n"},
	{"object-value", "@ GET /x {\n  $ a = 1\n  > {k:\n    ", "a}\n}\n"},
	{"continuation", "@ GET /x {\n  $ a = 1\n  $ b = a\n    ", " a\n  > b\n}\n"},
	{"top-level", "", " GET /x {\n  > 1\n}\n"},
	{"after-blank-in-string", "@ GET /x {\n  $ s = \"\n  ", " x\"\n  > 1\n}\n"},
	{"call-arg", "@ GET /x {\n  $ a = 1\n  > abs(\n    ", "a)\n}\n"},
}

func VerifC18_RoundTripSigil() {
	t := zzSigilTemplates[zzverif.Choice("template", len(zzSigilTemplates))]
	c := zzverif.StringFrom("c", 1, zzSigils)
	name := "other"
	for k := 0; k < len(zzSigils); k++ {
		if c == zzSigils[k:k+1] {
			name = zzSigils[k : k+1]
		}
	}
	zzRoundTrip("sigil-"+t.name, t.pre+c+t.post, name)
}

// a statement sigil followed directly - no blank - by symbolic characters:
// digits, underscore, letters, brackets, quotes, operators ("> 0" written ">0",
// "$_t = 1", ">(a)", ">-a" ...). Whatever the compact parser accepts must come
// back as the same tree.
func VerifC18_RoundTripSigilNoSpace2() { zzSigilNoSpace(2) }
func VerifC18_RoundTripSigilNoSpace3() { zzSigilNoSpace(3) }

func zzSigilNoSpace(n int) {
	c := zzverif.StringFrom("c", 1, ">$?<%+~")
	name := "other"
	for k := 0; k < len(zzSigils); k++ {
		if c == zzSigils[k:k+1] {
			name = zzSigils[k : k+1]
		}
	}
	rest := zzverif.StringFrom("rest", n, "0_a (\"=-[")
	tail := []string{"", " = 1", "1"}[zzverif.Choice("tail", 3)]
	zzRoundTrip("sigil-nospace", "@ GET /x {\n  $ a = 1\n  $ _a = 2\n  "+c+rest+tail+"\n  > a\n}\n", name)
}

// every statement sigil of the language in one program; one identifier symbolic
func VerifC18_RoundTripAllSigils() {
	w := zzverif.StringFrom("w", 2, zzLetters)
	src := ": Msg {\n  text: str!\n}\n! dbl(n: int): int {\n  > n * 2\n}\n@ POST /m/:id {\n  + auth(jwt)\n  + ratelimit(10/min)\n" +
		"  % db: Database\n  < input: Msg\n  ? validate_length(id, 1, 10)\n  $ " + w + " = dbl(2) + 1\n  > {v: " + w + "}\n}\n" +
		"* \"0 0 * * *\" cleanup {\n  > 1\n}\n~ \"user.created\" {\n  > 1\n}\n! hello name: str! {\n  > name\n}\n& \"email.send\" {\n  > 1\n}\n"
	zzRoundTrip("all-sigils", src, "other")
	if _, ok := zzParseCompact(src); !ok {
		return
	}
	zzverif.Assert(formatter.CompactSource(formatter.ExpandSource(src)) == src, "all-sigils text round trip differs")
	zzverif.Reach("allsigils")
}

// string literals with symbolic content (escapes, quotes of the other style,
// statement symbols, a backslash before the closing quote) followed by
// statements that need substitution
func VerifC18_RoundTripStringContent() {
	q := []string{"\"", "'"}[zzverif.Choice("quote", 2)]
	content := zzverif.StringFrom("content", 3, "a\\\"'>$ #")
	src := "@ GET /x {\n  $ s = " + q + content + q + "\n  $ t = " + q + ">" + q + "\n  > s\n}\n"
	zzRoundTrip("string-content", src, "other")
	zzverif.Reach("strcontent")
}
