package hotreload

// C19 (library half) — ReloadManager.handleChanges over symbolic edit / fault
// sequences: the server keeps the most recent version that compiled and
// reloaded successfully; a later good edit takes effect; events are truthful.

import (
	"errors"
	"time"

	"github.com/glyphlang/glyph/internal/zzverif"
)

type zzCompiler struct {
	calls   int
	lastArg string
	fail    bool // outcome of the next CompileFile
	version byte // version produced by the next successful CompileFile
	empty   bool // next successful CompileFile yields an empty (non-nil) program
}

func (c *zzCompiler) CompileFile(path string) ([]byte, error) {
	c.calls++
	c.lastArg = path
	if c.fail {
		return nil, errors.New("compile error")
	}
	if c.empty {
		return []byte{}, nil
	}
	return []byte{c.version}, nil
}

type zzServer struct {
	active      []byte // what the server is serving
	reloads     int
	failReload  bool
	failSet     bool
	state       map[string]interface{}
	setCalls    int
	setArg      map[string]interface{}
	reloadAfter int // compiler.calls observed at Reload time
	comp        *zzCompiler
}

func (s *zzServer) Reload(b []byte) error {
	s.reloads++
	s.reloadAfter = s.comp.calls
	if s.failReload {
		return errors.New("reload error")
	}
	s.active = b
	// a freshly loaded program starts with empty state
	s.state = map[string]interface{}{}
	return nil
}
func (s *zzServer) GetState() map[string]interface{} { return s.state }
func (s *zzServer) SetState(st map[string]interface{}) error {
	s.setCalls++
	s.setArg = st
	if s.failSet {
		return errors.New("set state error")
	}
	s.state = st
	return nil
}

func zzHasGlyphSuffix(p string) bool {
	n := len(p)
	return n >= 6 && p[n-6:] == ".glyph"
}

// zzHistory runs k change batches through the real handleChanges.
func zzHistory(k int) {
	comp := &zzCompiler{}
	srv := &zzServer{comp: comp, active: []byte{0}, state: map[string]interface{}{"session": 0}}
	var events []ReloadEvent
	var errs int
	rm := &ReloadManager{compiler: comp, server: srv, state: NewApplicationState()}
	WithOnReload(func(e ReloadEvent) { events = append(events, e) })(rm)
	WithErrorHandler(func(error) { errs++ })(rm)

	wantActive := byte(0)
	for step := 1; step <= k; step++ {
		// the batch: two changed paths, each "m" + 7 symbolic bytes
		p1 := "m" + zzverif.StringFrom("p1", 7, ".glyphx/")
		p2 := "n" + zzverif.StringFrom("p2", 7, ".glyphx/")
		nchanges := 1 + zzverif.Choice("nchanges", 2)
		batch := []FileChange{{Path: p1, Type: ChangeTypeModified}}
		if nchanges == 2 {
			batch = append(batch, FileChange{Path: p2, Type: ChangeTypeCreated})
		}
		comp.fail = zzverif.Bool("compileFails")
		comp.version = byte(step)
		srv.failReload = zzverif.Bool("reloadFails")
		srv.failSet = zzverif.Bool("setStateFails")
		stateBefore := srv.state
		stateBefore["session"] = step // the application changed its state while running

		nEv, nCalls, nReloads, nSet, nErrs := len(events), comp.calls, srv.reloads, srv.setCalls, errs
		cntBefore := rm.Stats().ReloadCount
		zzverif.Obligation("handleChanges returns")
		rm.handleChanges(batch)

		// independent reading of the batch
		main := ""
		if zzHasGlyphSuffix(p1) {
			main = p1
		} else if nchanges == 2 && zzHasGlyphSuffix(p2) {
			main = p2
		}
		if main == "" {
			zzverif.Assert(comp.calls == nCalls && srv.reloads == nReloads && len(events) == nEv, "batch-without-source-file-had-an-effect")
			zzverif.Assert(srv.active[0] == wantActive, "served-version-changed-without-a-good-edit")
			continue
		}
		zzverif.Assert(comp.calls == nCalls+1 && comp.lastArg == main, "changed-source-file-not-compiled")
		zzverif.Assert(len(events) == nEv+1, "no-reload-event-for-an-edit")
		ev := events[len(events)-1]
		zzverif.Assert(ev.ReloadCount == cntBefore+1 && rm.Stats().ReloadCount == cntBefore+1, "reload-count-wrong")
		switch {
		case comp.fail:
			zzverif.Assert(srv.reloads == nReloads, "server-reloaded-although-compilation-failed")
			zzverif.Assert(!ev.Success && ev.Error != nil, "failed-compile-reported-as-success")
			zzverif.Assert(errs == nErrs+1, "error-handler-not-told-about-failed-compile")
			zzverif.Assert(srv.setCalls == nSet, "state-touched-on-failed-compile")
		case srv.failReload:
			zzverif.Assert(srv.reloads == nReloads+1 && srv.reloadAfter == nCalls+1, "reload-not-attempted-after-good-compile")
			zzverif.Assert(!ev.Success && ev.Error != nil, "failed-reload-reported-as-success")
			zzverif.Assert(errs == nErrs+1, "error-handler-not-told-about-failed-reload")
		default:
			wantActive = byte(step)
			zzverif.Assert(srv.reloads == nReloads+1 && srv.reloadAfter == nCalls+1, "good-edit-not-reloaded")
			zzverif.Assert(ev.Success && ev.Error == nil, "good-edit-reported-as-failure")
			zzverif.Assert(srv.setCalls == nSet+1, "state-not-restored-after-reload")
			if !srv.failSet {
				v, ok := srv.state["session"]
				zzverif.Assert(ok && v == step, "restored-state-is-not-the-state-before-reload")
			}
		}
		zzverif.Assert(len(srv.active) == 1 && srv.active[0] == wantActive, "served-version-is-not-the-latest-good-edit")
	}
	zzverif.Reach("history")
}

func VerifC19_Manager1() { zzHistory(1) }
func VerifC19_Manager2() { zzHistory(2) }
func VerifC19_Manager3() { zzHistory(3) }

// the same with concrete paths (main.glyph), so that longer fault sequences stay cheap
func zzFaultHistory(k int) {
	comp := &zzCompiler{}
	srv := &zzServer{comp: comp, active: []byte{0}, state: map[string]interface{}{}}
	var events []ReloadEvent
	rm := &ReloadManager{compiler: comp, server: srv, state: NewApplicationState()}
	WithOnReload(func(e ReloadEvent) { events = append(events, e) })(rm)
	wantActive := byte(0)
	for step := 1; step <= k; step++ {
		comp.fail = zzverif.Bool("compileFails")
		comp.empty = zzverif.Bool("emptyProgram")
		comp.version = byte(step)
		srv.failReload = zzverif.Bool("reloadFails")
		srv.failSet = zzverif.Bool("setStateFails")
		rm.handleChanges([]FileChange{{Path: "src/main.glyph", Type: ChangeTypeModified}})
		if !comp.fail && !srv.failReload {
			if comp.empty {
				wantActive = 255
			} else {
				wantActive = byte(step)
			}
		}
		got := byte(255)
		if len(srv.active) == 1 {
			got = srv.active[0]
		}
		zzverif.Assert(got == wantActive, "served-version-is-not-the-latest-good-edit")
		zzverif.Assert(len(events) == step && events[step-1].Success == (!comp.fail && !srv.failReload), "event-stream-not-truthful")
	}
	zzverif.Reach("faults")
}

func VerifC19_Faults4() { zzFaultHistory(4) }
func VerifC19_Faults5() { zzFaultHistory(5) }

func VerifC19_Twin() {
	comp := &zzCompiler{}
	srv := &zzServer{comp: comp, active: []byte{0}, state: map[string]interface{}{}}
	rm := &ReloadManager{compiler: comp, server: srv, state: NewApplicationState()}
	comp.fail = zzverif.Bool("compileFails")
	comp.version = 1
	rm.handleChanges([]FileChange{{Path: "main.glyph"}})
	zzverif.Assert(srv.active[0] == 1, "twin")
	zzverif.Reach("twin")
}

// ---------------------------------------------------------------------------
// the polling FileWatcher: every edit that changes the watched file's content
// is reported by the next poll (and nothing else is), whatever the edit's
// length and however soon after the previous one it is written - so that
// ReloadManager gets to see every later valid edit.
//
// Under the engine the directory is the model file system (content, size and
// modification time per file, time from the virtual clock) and the watcher's
// content digest is taken as collision free; natively the same harness works
// on a temporary directory with the real SHA-256.

var zzEditGaps = []time.Duration{0, 300 * time.Millisecond, 1100 * time.Millisecond}

func zzWatcherHistory(k int) {
	zzverif.FSReset()
	zzverif.FSFile("/w/main.glyph", "version=v0")
	zzverif.FSFile("/w/notes.txt", "n0")
	w := NewFileWatcher([]string{zzverif.FSPath("/w")}, nil)
	if err := w.scan(); err != nil {
		zzverif.Fail("watcher: initial scan failed")
	}
	main := zzverif.FSPath("/w/main.glyph")
	seen := "version=v0" // content at the last poll
	present := true
	for step := 1; step <= k; step++ {
		gap := zzEditGaps[zzverif.Choice("gap before the edit", len(zzEditGaps))]
		zzverif.AdvanceClock(gap)
		if !zzverif.Symbolic() {
			time.Sleep(gap)
		}
		next := seen
		digit := string(rune('0' + step))
		switch zzverif.Choice("edit", 6) {
		case 0: // same length, new content
			next = "version=v" + digit
		case 1: // a broken version of the same length ("!!" prefix)
			next = "!!rsion=v" + digit
		case 2: // different length
			next = "version=v" + digit + digit
		case 3: // rewritten with identical content
		case 4: // deleted and recreated with new content of the same length
			zzverif.FSRemove("/w/main.glyph")
			next = "VERSION=v" + digit
		case 5: // an unrelated file changes
			zzverif.FSFile("/w/notes.txt", "n"+digit)
		}
		zzverif.FSFile("/w/main.glyph", next)
		changes := w.detectChanges()
		n := 0
		for _, c := range changes {
			zzverif.Assert(c.Path == main, "watcher: change reported for a file outside the patterns")
			n++
		}
		if next != seen || !present {
			zzverif.Assert(n == 1, "watcher: an edit that changed the watched file was not reported by the next poll")
		} else {
			zzverif.Assert(n == 0, "watcher: change reported although the content is the same")
		}
		seen, present = next, true
	}
	zzverif.Reach("watcher")
}

func VerifC19_Watcher2() { zzWatcherHistory(2) }
func VerifC19_Watcher3() { zzWatcherHistory(3) }
