#!/bin/sh
# usage: tools/try_seed.sh <property id> <patch file> [tier]
# applies a seeded change to /repo, runs the property's check, and undoes the change.
id="$1"; patch="$2"; tier="${3:-quick}"
cd /repo || exit 2
if [ -n "$(git status --porcelain)" ]; then echo "/repo not clean"; exit 2; fi
git apply "$patch" || { echo "patch does not apply"; exit 2; }
cd /verif && bin/check "$id" "$tier"; rc=$?
git -C /repo checkout -- . && git -C /repo clean -fdq
echo "try_seed: $id $patch -> exit $rc"
exit $rc
