#!/bin/sh
# Development-time helper: runs every property's quick check against every
# seeded change (scratch worktree of /repo's HEAD + VERIF_REPO_DIR) from the
# directory it is started in (a snapshot made by `vp run`, or /verif) and
# writes one line per seed to sweep_results.txt there. SWEEP_FILTER=<regex> restricts the seeds.
V=$(pwd)
[ -x engine/gosym ] || sh bin/setup || exit 2
out=$V/sweep_results.txt; : > $out
mkdir -p /tmp/sweep
for s in $(ls seeded | grep -v RESULTS | grep -E -e "${SWEEP_FILTER:-.}"); do
  id=${s%%-*}
  wt=/tmp/sweep/$s
  git -C /repo worktree remove --force $wt 2>/dev/null; rm -rf $wt
  git -C /repo worktree add --detach $wt HEAD >/dev/null 2>&1 || { echo "$s | worktree failed" >> $out; continue; }
  ( cd $wt && git apply $V/seeded/$s/patch.diff ) || { echo "$s | patch does not apply" >> $out; git -C /repo worktree remove --force $wt; continue; }
  VERIF_REPO_DIR=$wt VERIF_EVIDENCE_DIR=/tmp/sweep/ev-$s timeout 3600 engine/gosym -verif $V -check checks/$id.json -tier quick > /tmp/sweep/$s.log 2>&1; rc=$?
  git -C /repo worktree remove --force $wt; rm -rf $wt /tmp/sweep/ev-$s
  nv=$(grep -c "^VIOLATION" /tmp/sweep/$s.log)
  hs=$(grep "^  violation" /tmp/sweep/$s.log | sed 's/.*harness=\([A-Za-z0-9_]*\).*/\1/' | sort -u | tr '\n' ' ')
  wall=$(grep -o "wall [0-9.]*s" /tmp/sweep/$s.log | tail -1)
  echo "$s | exit $rc | violations=$nv | $hs| $wall" >> $out
done
echo SWEEPDONE >> $out
