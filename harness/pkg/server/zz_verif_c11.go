package server

// C11 — client identity: getClientIP strips the port and ignores forwarding
// headers unless proxies are explicitly trusted.

import (
	"net/http"

	"github.com/glyphlang/glyph/internal/zzverif"
)

func VerifC11_ClientIP() {
	host := zzverif.StringFrom("host", 3, "0123456789.a")
	port := zzverif.StringFrom("port", 2, "0123456789")
	xff := zzverif.StringFrom("xff", 4, "0123456789., :a")
	r := &http.Request{Header: http.Header{}, RemoteAddr: host + ":" + port}
	r.Header["X-Forwarded-For"] = []string{xff}
	r.Header["X-Real-Ip"] = []string{"7.7.7.7"}
	got := getClientIP(r, false)
	zzverif.Assert(got == host, "untrusted-identity-is-not-the-remote-host")

	// proxies trusted, but only from a configured proxy address
	SetTrustedProxies([]string{"10.9.9.9"})
	got = getClientIP(r, true)
	zzverif.Assert(got == host, "forwarding-header-honoured-from-untrusted-peer")
	SetTrustedProxies(nil)
	zzverif.Reach("clientip")
}

func VerifC11_ClientIPTwin() {
	host := zzverif.StringFrom("host", 2, "01.")
	r := &http.Request{Header: http.Header{}, RemoteAddr: host + ":80"}
	r.Header["X-Forwarded-For"] = []string{"1.2.3.4"}
	zzverif.Assert(getClientIP(r, true) == host, "twin-must-fail")
	zzverif.Reach("twin")
}
