package zzc02

// C02-O2 — statement parity: programs written as source text (parsed by the
// real parser) with symbolic integers bound in front of them, run by the
// interpreter and by compiler + VM (-O0 and -O1). Scoping is the risk: the VM
// keeps one flat, name-keyed variable store.

import (
	"github.com/glyphlang/glyph/internal/zzverif"
	"github.com/glyphlang/glyph/pkg/ast"
	"github.com/glyphlang/glyph/pkg/compiler"
	"github.com/glyphlang/glyph/pkg/interpreter"
	"github.com/glyphlang/glyph/pkg/parser"
)

var zzStmtPrograms = []struct{ name, body string }{
	{"shadow-in-if", `
  $ x = a
  if c > 0 {
    $ y = x + 1
    x = y
  }
  > x`},
	{"block-local-not-visible-after", `
  $ x = a
  if c > 0 {
    $ t = b
    x = x + t
  }
  $ t = 5
  > x + t`},
	{"while-break-continue", `
  $ i = 0
  $ s = 0
  while i < 4 {
    i = i + 1
    if i == b {
      break
    }
    if i == c {
      continue
    }
    s = s + i
  }
  > s * 10 + i`},
	{"for-array-index", `
  $ s = 0
  for k, e in [a, b, c] {
    if e == 0 {
      > 0 - k - 1
    }
    s = s + e * (k + 1)
  }
  > s`},
	{"for-loop-variable-scope", `
  $ e = 100
  $ s = 0
  for e in [a, b] {
    s = s + e
  }
  > s + e`},
	{"nested-loops-same-variable", `
  $ s = 0
  for i in [a, b] {
    for i in [7, c] {
      s = s + i
    }
    s = s * 10 + i
  }
  > s`},
	{"block-variable-shadowed-by-inner-loop", `
  $ s = 0
  if a < 9 {
    $ t = b
    for t in [1, 2] {
      s = s + t
    }
    s = s * 10 + t
  }
  > s`},
	{"block-variable-shadowed-by-match-binding", `
  $ s = 0
  if a < 9 {
    $ v = b
    $ m = match c {
      0 => 5
      v => v + 1
    }
    s = m * 10 + v
  }
  > s`},
	{"switch-default", `
  $ r = 0
  switch a {
    case 1 {
      r = b
    }
    case 2 {
      r = c
    }
    default {
      r = 0 - 1
    }
  }
  > r`},
	{"nested-loops-outer-update", `
  $ n = 0
  $ i = 0
  while i < 2 {
    $ j = 0
    while j < 2 {
      if a == j {
        n = n + 10
      }
      n = n + 1
      j = j + 1
    }
    i = i + 1
  }
  > n`},
	{"match-literals", `
  $ r = match a {
    0 => b
    1 => c
    _ => 0 - 1
  }
  > r`},
	{"if-else-chain", `
  if a < 0 {
    > 0 - 1
  } else if a == 0 {
    > b
  } else {
    > c
  }`},
	{"for-key-variable-scope", `
  $ k = 50
  $ s = 0
  for k, e in [a, b] {
    s = s + e + k
  }
  > s + k`},
	{"match-binding-scope", `
  $ n = 7
  $ r = match a {
    0 => 0
    n => n + b
  }
  > r * 100 + n`},
	{"for-over-object", `
  $ o = {p: a, q: b}
  $ s = 0
  for key, val in o {
    s = s * 3 + val
  }
  > s`},
	{"array-concat-keeps-operands", `
  $ base = [a, b] + [c]
  $ l = base + [10]
  $ r = base + [20]
  > [l[3], r[3], length(base), base[2]]`},
	{"object-literals-are-values", `
  $ o = {x: a, y: b}
  $ p = o
  $ p.x = c
  > [o.x, p.x, o.y]`},
	{"reassign-in-else", `
  $ v = a
  if b > c {
    v = v + 1
  } else {
    v = v - 1
  }
  > v * 2`},
}

func VerifC02_Statements() {
	k := zzverif.Choice("program", len(zzStmtPrograms))
	p := zzStmtPrograms[k]
	toks, err := parser.NewLexer("@ GET /t {" + p.body + "\n}\n").Tokenize()
	if err != nil {
		panic("harness program does not lex: " + p.name)
	}
	m, err := parser.NewParser(toks).Parse()
	if err != nil {
		panic("harness program does not parse: " + p.name + ": " + err.Error())
	}
	r := m.Items[0].(*ast.Route)
	small := func(n string) ast.Statement {
		return ast.AssignStatement{Target: n, Value: ast.LiteralExpr{Value: ast.IntLiteral{Value: int64(zzverif.IntRange(n, -1, 3))}}}
	}
	r.Body = append([]ast.Statement{small("a"), small("b"), small("c")}, r.Body...)
	iv := runInterpreted(r)
	for _, lvl := range []compiler.OptimizationLevel{compiler.OptNone, compiler.OptBasic} {
		if _, cerr := compiler.NewCompilerWithOptLevel(lvl).CompileRoute(r); cerr != nil {
			// an ordinary compile error makes the server fall back to the interpreter (no
			// divergence); a semantic error for a valid program stops the server
			if compiler.IsSemanticError(cerr) {
				zzverif.Fail("statements " + p.name + " compiler reports a semantic error for a valid program")
			}
			continue
		}
		cv, ok := runCompiled(r, lvl)
		if !ok {
			continue
		}
		compare("statements "+p.name, iv, cv)
	}
	zzverif.Reach("statements")
}

// Calls: a compiled route can call the VM's builtins; a call to anything else
// (a user-defined function, a builtin only the interpreter has) compiles and
// then fails at run time, where the interpreter runs it.
var zzCallPrograms = []struct{ name, decl, body string }{
	{"vm-builtin upper", "", `> upper("a")`},
	{"vm-builtin length", "", `> length([a, b])`},
	{"vm-builtin length non-ascii", "", `> length("h\u00e9llo w\u00f6rld")`},
	{"vm-builtin upper non-ascii", "", `> upper("h\u00e9llo")`},
	{"vm-builtin substring non-ascii", "", `> substring("h\u00e9llo", 1, 3)`},
	{"vm-builtin split-join non-ascii", "", `> join(split("\u00e9,b", ","), "-")`},
	{"vm-builtin contains-replace non-ascii", "", `> replace("h\u00e9llo", "\u00e9", "e")`},
	{"vm-builtin trim", "", `> length(trim("  \u00e9 "))`},
	{"user-function", "! dbl(n: int): int {\n  > n * 2\n}\n\n", `> dbl(a)`},
	{"builtin abs", "", `> abs(a)`},
	{"builtin append", "", `> append([a], b)`},
	{"builtin toString", "", `> toString(a)`},
	{"builtin min", "", `> min(a, b)`},
	{"builtin parseInt", "", `> parseInt("4")`},
}

func VerifC02_Calls() {
	k := zzverif.Choice("program", len(zzCallPrograms))
	p := zzCallPrograms[k]
	toks, err := parser.NewLexer(p.decl + "@ GET /t {\n  " + p.body + "\n}\n").Tokenize()
	if err != nil {
		panic("harness program does not lex: " + p.name)
	}
	m, err := parser.NewParser(toks).Parse()
	if err != nil {
		panic("harness program does not parse: " + p.name + ": " + err.Error())
	}
	var r *ast.Route
	for _, it := range m.Items {
		if x, ok := it.(*ast.Route); ok {
			r = x
		}
	}
	small := func(n string) ast.Statement {
		return ast.AssignStatement{Target: n, Value: ast.LiteralExpr{Value: ast.IntLiteral{Value: int64(zzverif.IntRange(n, -1, 3))}}}
	}
	r.Body = append([]ast.Statement{small("a"), small("b")}, r.Body...)
	in := interpreter.NewInterpreter()
	if err := in.LoadModule(*m); err != nil {
		panic("harness program does not load: " + p.name)
	}
	resp, ierr := in.ExecuteRoute(r, &interpreter.Request{Path: "/t", Method: "GET"})
	iv := outcome{isErr: ierr != nil}
	if ierr == nil {
		iv = outcome{status: resp.StatusCode, val: resp.Body}
	}
	cv, ok := runCompiled(r, compiler.OptBasic)
	if !ok {
		zzverif.Reach("calls") // the compiler refused: the server falls back to the interpreter
		return
	}
	compare("call "+p.name, iv, cv)
	zzverif.Reach("calls")
}
