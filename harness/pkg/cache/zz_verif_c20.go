package cache

// C20 — the cache behaves as a bounded LRU map.
// Harnesses for the symbolic engine (/verif/engine); compiled natively they
// are the replay tests (see internal/zzverif).

import (
	"sync/atomic"
	"time"

	"github.com/glyphlang/glyph/internal/zzverif"
)

// ---- reference LRU (written from the property statement) -------------------

type zzRefEntry struct {
	key     string
	val     string
	size    int64
	hasExp  bool
	expires int64 // virtual nanoseconds
}

type zzRef struct {
	ents    []zzRefEntry // index 0 = most recently used
	cap     int
	maxSize int64
	size    int64
	now     int64
}

func (r *zzRef) find(key string) int {
	for i := range r.ents {
		if r.ents[i].key == key {
			return i
		}
	}
	return -1
}

func (r *zzRef) removeAt(i int) {
	r.size -= r.ents[i].size
	r.ents = append(r.ents[:i:i], r.ents[i+1:]...)
}

func (r *zzRef) toFront(i int) {
	e := r.ents[i]
	r.ents = append(r.ents[:i:i], r.ents[i+1:]...)
	r.ents = append([]zzRefEntry{e}, r.ents...)
}

func (r *zzRef) get(key string) (string, bool) {
	i := r.find(key)
	if i < 0 {
		return "", false
	}
	if r.ents[i].hasExp && r.now > r.ents[i].expires {
		r.removeAt(i)
		return "", false
	}
	r.toFront(i)
	return r.ents[0].val, true
}

func (r *zzRef) set(key, val string, size int64, ttl, dflt int64) {
	if ttl == 0 {
		ttl = dflt
	}
	e := zzRefEntry{key: key, val: val, size: size}
	if ttl > 0 {
		e.hasExp, e.expires = true, r.now+ttl
	}
	if i := r.find(key); i >= 0 {
		r.size += size - r.ents[i].size
		r.ents[i] = e
		r.toFront(i)
		// a bounded cache must stay within its byte budget after an
		// overwrite too: least recently used others go first
		for r.maxSize > 0 && r.size > r.maxSize && len(r.ents) > 1 {
			r.removeAt(len(r.ents) - 1)
		}
		return
	}
	for len(r.ents) > 0 && (len(r.ents) >= r.cap || (r.maxSize > 0 && r.size+size > r.maxSize)) {
		r.removeAt(len(r.ents) - 1)
	}
	r.ents = append([]zzRefEntry{e}, r.ents...)
	r.size += size
}

func (r *zzRef) del(key string) {
	if i := r.find(key); i >= 0 {
		r.removeAt(i)
	}
}

var zzKeys = []string{"a", "b", "ab"}

func zzNewCache(capacity int, maxSize int64, ttl time.Duration) *LRUCache {
	// the constructor of the real cache, minus the background goroutine
	// (its ticker never fires in the engine; natively it is harmless)
	return NewLRUCache(WithCapacity(capacity), WithMaxSize(maxSize), WithDefaultTTL(ttl))
}

func zzCheckInvariants(c *LRUCache, r *zzRef, step string) {
	zzCheckStructure(c, r.cap, r.maxSize, step)
	zzverif.Assert(c.Stats().Size == r.size, "size-differs-from-lru-model after "+step)
}

// zzCheckStructure: the bounds, and the agreement of index, recency list and byte accounting.
func zzCheckStructure(c *LRUCache, capacity int, maxSize int64, step string) {
	st := c.Stats()
	zzverif.Assert(st.EntryCount <= int64(capacity), "count-exceeds-capacity after "+step)
	if maxSize > 0 {
		zzverif.Assert(st.Size <= maxSize, "size-exceeds-maxSize after "+step)
	}
	zzverif.Assert(st.EntryCount == int64(len(c.items)), "index-and-list-disagree after "+step)
	// the bytes really held (summed over the entries) are what the accounting says, and within the budget
	var held int64
	for e := c.evictList.Front(); e != nil; e = e.Next() {
		held += e.Value.(*Entry).Size
	}
	zzverif.Assert(held == st.Size, "byte-accounting-differs-from-content after "+step)
	if maxSize > 0 {
		zzverif.Assert(held <= maxSize, "content-exceeds-maxSize after "+step)
	}
}

// zzHistory drives k operations against the real cache and the reference.
func zzHistory(k int, nkeys int, withTags bool) {
	capacity := zzverif.IntRange("capacity", 1, 3)
	maxSize := int64(zzverif.IntRange("maxSize", 0, 12))
	dflt := int64(zzverif.IntRange("defaultTTL", 0, 1000))

	c := zzNewCache(capacity, maxSize, time.Duration(dflt))
	defer c.Close()
	r := &zzRef{cap: capacity, maxSize: maxSize}

	nops := 4
	if withTags {
		nops = 6
	}
	for step := 0; step < k; step++ {
		d := int64(zzverif.IntRange("advance", 0, 2000))
		zzverif.AdvanceClock(time.Duration(d))
		r.now += d
		op := zzverif.Choice("op", nops)
		key := zzKeys[zzverif.Choice("key", nkeys)]
		switch op {
		case 0: // Get
			got, ok := c.Get(key)
			want, wok := r.get(key)
			zzverif.Assert(ok == wok, "get-hit-miss-differs-from-lru-model")
			if ok && wok {
				zzverif.Assert(got.(string) == want, "get-returns-wrong-value")
			}
			zzCheckInvariants(c, r, "get")
		case 1: // Set
			n := zzverif.IntRange("valueLen", 0, 6)
			// values that can never fit are the subject of VerifC20_SetAlwaysReturns
			zzverif.Assume(maxSize == 0 || int64(n) <= maxSize)
			ttl := int64(zzverif.IntRange("ttl", -1, 1000))
			v := zzverif.OpaqueString("value", n)
			err := c.Set(key, v, time.Duration(ttl))
			zzverif.Assert(err == nil, "set-error")
			r.set(key, v, int64(n), ttl, dflt)
			zzCheckInvariants(c, r, "set")
		case 2: // Delete
			c.Delete(key)
			r.del(key)
			zzCheckInvariants(c, r, "delete")
		case 3: // Clear
			c.Clear()
			r.ents, r.size = nil, 0
			zzCheckInvariants(c, r, "clear")
		case 4: // SetWithTags (tag = key's first letter)
			n := zzverif.IntRange("valueLen", 0, 6)
			zzverif.Assume(maxSize == 0 || int64(n) <= maxSize)
			v := zzverif.OpaqueString("value", n)
			c.SetWithTags(key, v, 0, []string{key[:1]})
			r.set(key, v, int64(n), 0, dflt)
			zzCheckInvariants(c, r, "setwithtags")
		case 5: // DeleteByTag
			tag := key[:1]
			c.DeleteByTag(tag)
			for i := 0; i < len(r.ents); {
				// every entry is tagged (case 4) or untagged (case 1); the model keeps the tag implicit:
				// only entries written by SetWithTags carry one. Track that with a marker in val? The
				// reference keeps it simple: this op is only issued in histories that used SetWithTags only.
				if r.ents[i].key[:1] == tag {
					r.removeAt(i)
				} else {
					i++
				}
			}
			zzCheckInvariants(c, r, "deletebytag")
		}
	}
	// final sweep: every key answers as the model says
	for _, key := range zzKeys[:nkeys] {
		got, ok := c.Get(key)
		want, wok := r.get(key)
		zzverif.Assert(ok == wok, "final-get-hit-miss-differs-from-lru-model")
		if ok && wok {
			zzverif.Assert(got.(string) == want, "final-get-returns-wrong-value")
		}
	}
	zzverif.Reach("history")
}

func VerifC20_History2() { zzHistory(2, 2, false) }
func VerifC20_History3() { zzHistory(3, 2, false) }
func VerifC20_History4() { zzHistory(4, 3, false) }

// Tagged entries: SetWithTags with tag lists that are empty, single, several
// or name a tag twice (lists merged from several sources), DeleteByTag, plain
// Set/Get/Delete in between; an eviction callback counts what leaves.
var zzTagLists = [][]string{nil, {"t"}, {"u"}, {"t", "u"}, {"t", "u", "t"}, {"u", "u"}}

func zzTagHistory(k, nkeys int, firstSet bool) {
	capacity := zzverif.IntRange("capacity", 1, 3)
	maxSize := int64(zzverif.IntRange("maxSize", 0, 12))
	evicted := 0
	c := NewLRUCache(WithCapacity(capacity), WithMaxSize(maxSize), WithDefaultTTL(0), WithOnEvict(func(string, interface{}) { evicted++ }))
	defer c.Close()
	r := &zzRef{cap: capacity, maxSize: maxSize}
	tags := map[string][]string{}
	for step := 0; step < k; step++ {
		op := 0
		if step > 0 || !firstSet {
			op = zzverif.Choice("op", 4)
		}
		key := zzKeys[zzverif.Choice("key", nkeys)]
		switch op {
		case 0: // SetWithTags
			n := zzverif.IntRange("valueLen", 0, 6)
			zzverif.Assume(maxSize == 0 || int64(n) <= maxSize)
			v := zzverif.OpaqueString("value", n)
			tl := zzTagLists[zzverif.Choice("tags", len(zzTagLists))]
			err := c.SetWithTags(key, v, 0, tl)
			zzverif.Assert(err == nil, "setwithtags-error")
			r.set(key, v, int64(n), 0, 0)
			tags[key] = tl
			zzCheckInvariants(c, r, "setwithtags")
		case 1: // DeleteByTag
			tag := []string{"t", "u", "w"}[zzverif.Choice("tag", 3)]
			before := evicted
			got := c.DeleteByTag(tag)
			want := 0
			for i := 0; i < len(r.ents); {
				has := false
				for _, t := range tags[r.ents[i].key] {
					if t == tag {
						has = true
					}
				}
				if has {
					r.removeAt(i)
					want++
				} else {
					i++
				}
			}
			zzverif.Assert(got == want, "deletebytag-count-differs-from-removed-entries")
			zzverif.Assert(evicted-before == want, "deletebytag-evict-callbacks-differ-from-removed-entries")
			zzCheckInvariants(c, r, "deletebytag")
		case 2: // Set (untagged: replaces the entry, tags included)
			n := zzverif.IntRange("valueLen", 0, 6)
			zzverif.Assume(maxSize == 0 || int64(n) <= maxSize)
			v := zzverif.OpaqueString("value", n)
			zzverif.Assert(c.Set(key, v, 0) == nil, "set-error")
			r.set(key, v, int64(n), 0, 0)
			tags[key] = nil
			zzCheckInvariants(c, r, "set")
		case 3: // Get
			got, ok := c.Get(key)
			want, wok := r.get(key)
			zzverif.Assert(ok == wok, "get-hit-miss-differs-from-lru-model")
			if ok && wok {
				zzverif.Assert(got.(string) == want, "get-returns-wrong-value")
			}
			zzCheckInvariants(c, r, "get")
		}
	}
	for _, key := range zzKeys[:nkeys] {
		_, ok := c.Get(key)
		_, wok := r.get(key)
		zzverif.Assert(ok == wok, "final-get-hit-miss-differs-from-lru-model")
	}
	zzverif.Reach("tags")
}

func VerifC20_Tags3()     { zzTagHistory(3, 2, true) }
func VerifC20_Tags3Full() { zzTagHistory(3, 3, false) }
func VerifC20_Tags4()     { zzTagHistory(4, 2, true) }

// Every Set returns, for every value size and configuration.
func VerifC20_SetAlwaysReturns() {
	capacity := zzverif.IntRange("capacity", 0, 2)
	maxSize := int64(zzverif.IntRange("maxSize", 0, 8))
	c := zzNewCache(capacity, maxSize, 0)
	defer c.Close()
	n1 := zzverif.IntRange("valueLen1", 0, 12)
	n2 := zzverif.IntRange("valueLen2", 0, 12)
	zzverif.Obligation("LRUCache.Set returns")
	c.Set("a", zzverif.OpaqueString("v1", n1), 0)
	c.Set("b", zzverif.OpaqueString("v2", n2), 0)
	st := c.Stats()
	zzverif.Assert(st.EntryCount <= int64(capacity), "count-exceeds-capacity after set")
	if maxSize > 0 {
		zzverif.Assert(st.Size <= maxSize, "size-exceeds-maxSize after set")
	}
	zzverif.Reach("set-returns")
}

// Vacuity twin: the same driver with the property negated must be refuted.
func VerifC20_Twin() {
	c := zzNewCache(2, 0, 0)
	defer c.Close()
	n := zzverif.IntRange("valueLen", 0, 6)
	c.Set("a", zzverif.OpaqueString("v", n), 0)
	_, ok := c.Get("a")
	zzverif.Assert(!ok, "twin-must-fail")
	zzverif.Reach("twin")
}

// Two goroutines use one cache: every explored schedule keeps the accesses
// ordered (race monitor), no operation blocks for ever, and the final state is
// one a sequential order of the operations could have produced.
func VerifC20_Concurrent() {
	c := NewLRUCache(WithCapacity(2), WithDefaultTTL(0)) // no expiry: the clock is free to jump
	done := make(chan struct{}, 2)
	var got1, got2 interface{}
	var ok1, ok2 bool
	go func() {
		zzverif.Perturb()
		c.Set("a", "1", 0)
		got1, ok1 = c.Get("b")
		done <- struct{}{}
	}()
	go func() {
		zzverif.Perturb()
		c.Set("b", "2", 0)
		c.Set("c", "3", 0)
		got2, ok2 = c.Get("a")
		done <- struct{}{}
	}()
	<-done
	<-done
	if ok1 {
		zzverif.Assert(got1 == interface{}("2"), "concurrent: Get returned a value never stored under that key")
	}
	if ok2 {
		zzverif.Assert(got2 == interface{}("1"), "concurrent: Get returned a value never stored under that key")
	}
	st := c.Stats()
	zzverif.Assert(st.EntryCount <= 2, "concurrent: capacity exceeded")
	_, hasC := c.Get("c")
	zzverif.Assert(hasC, "concurrent: the most recently stored key was evicted")
	zzverif.Reach("concurrent")
}

// Two goroutines store into a full cache (capacity 1 or 2) that has an eviction callback: both
// stores evict, and whatever the callback's place in the locking, the cache
// afterwards is within its bounds with index, list and accounting in agreement.
func VerifC20_ConcurrentEvictCallback() {
	var evicted int32
	sameKey := zzverif.Bool("both store the same new key")
	capacity := zzverif.IntRange("capacity", 1, 2)
	c := NewLRUCache(WithCapacity(capacity), WithMaxSize(8), WithDefaultTTL(0), WithOnEvict(func(string, interface{}) { atomic.AddInt32(&evicted, 1) }))
	c.Set("x", "00", 0)
	c.Set("y", "00", 0)
	k2 := "b"
	if sameKey {
		k2 = "a"
	}
	done := make(chan struct{}, 2)
	go func() {
		zzverif.Perturb()
		c.Set("a", "11", 0)
		done <- struct{}{}
	}()
	go func() {
		zzverif.Perturb()
		c.Set(k2, "222", 0)
		done <- struct{}{}
	}()
	<-done
	<-done
	zzCheckStructure(c, capacity, 8, "concurrent sets with an eviction callback")
	_, hasA := c.Get("a")
	_, hasB := c.Get(k2)
	zzverif.Assert(hasA || hasB, "concurrent: neither of the two stored keys is present")
	zzverif.Reach("concurrent-evict")
}

// DeleteByTag while another goroutine deletes one of the tagged entries.
func VerifC20_ConcurrentDeleteByTag() {
	var evicted int32
	c := NewLRUCache(WithCapacity(3), WithMaxSize(6), WithDefaultTTL(0), WithOnEvict(func(string, interface{}) { atomic.AddInt32(&evicted, 1) }))
	c.SetWithTags("a", "11", 0, []string{"t"})
	c.SetWithTags("b", "22", 0, []string{"t"})
	done := make(chan struct{}, 2)
	go func() {
		zzverif.Perturb()
		c.DeleteByTag("t")
		done <- struct{}{}
	}()
	go func() {
		zzverif.Perturb()
		c.Delete("a")
		c.Delete("b")
		done <- struct{}{}
	}()
	<-done
	<-done
	zzCheckStructure(c, 3, 6, "concurrent DeleteByTag and Delete")
	zzverif.Assert(c.Stats().Size == 0 && c.Stats().EntryCount == 0, "concurrent: entries or bytes left after everything was deleted")
	zzverif.Assert(atomic.LoadInt32(&evicted) == 2, "concurrent: eviction callback not run exactly once per removed entry")
	zzverif.Reach("concurrent-deletebytag")
}
