package main

// C08 in compiled mode: what one request does - failing at run time included -
// leaves nothing behind for the next request served by the same handlers.

import (
	"net/http"
	"net/url"

	"github.com/glyphlang/glyph/internal/zzverif"
	"github.com/glyphlang/glyph/pkg/ast"
	"github.com/glyphlang/glyph/pkg/compiler"
	"github.com/glyphlang/glyph/pkg/server"
)

const zzC08Program = `
@ GET /greet/:name {
  $ msg = "Hello, " + name
  > {message: msg}
}

@ GET /share {
  ? total: int = 90
  ? people: int = 3
  $ each = total / people
  > {each: each}
}
`

func zzC08Handlers() (greet, share server.RouteHandler) {
	m, err := parseSource(zzC08Program)
	if err != nil {
		panic("harness program does not parse: " + err.Error())
	}
	for _, it := range m.Items {
		r, ok := it.(*ast.Route)
		if !ok {
			continue
		}
		bc, err := compiler.NewCompilerWithOptLevel(compiler.OptBasic).CompileRoute(r)
		if err != nil {
			zzverif.Fail("c08 compiled: route does not compile")
		}
		if r.Path == "/share" {
			share = createCompiledRouteHandler(r, bc, nil)
		} else {
			greet = createCompiledRouteHandler(r, bc, nil)
		}
	}
	return
}

func VerifC08_CompiledFailedRequestLeavesNothing() {
	greet, share := zzC08Handlers()
	people := zzverif.StringFrom("people", 1, "03x")
	name := zzverif.StringFrom("name", 1, "ab")
	get := func(h server.RouteHandler, path, q string, params map[string]string) zzAnswer {
		return zzAsk(h, &http.Request{Method: "GET", Header: http.Header{}, URL: &url.URL{Path: path, RawQuery: q}, RemoteAddr: "10.0.0.1:1"}, params)
	}
	first := get(share, "/share", "total=90&people="+people, nil)
	if people == "0" {
		zzverif.Assert(first.status >= 400, "compiled: division by zero answered with a success status")
	}
	if people == "3" {
		zzverif.Assert(first.status == 200 && zzSameJSON(first.body, map[string]interface{}{"each": int64(30)}), "compiled: share answered wrongly")
	}
	n := zzverif.IntRange("later requests", 1, 2)
	for i := 0; i < n; i++ {
		g := get(greet, "/greet/"+name, "", map[string]string{"name": name})
		zzverif.Assert(g.status == 200, "compiled: a request after another request's failure was not answered 200")
		zzverif.Assert(zzSameJSON(g.body, map[string]interface{}{"message": "Hello, " + name}), "compiled: a request after another request's failure got a different body than alone")
		s := get(share, "/share", "total=90&people=3", nil)
		zzverif.Assert(s.status == 200 && zzSameJSON(s.body, map[string]interface{}{"each": int64(30)}), "compiled: a good request after a failed one on the same route answered differently than alone")
	}
	zzverif.Reach("c08-compiled")
}
