package database

// C14 — transactions are all-or-nothing.
//
// The real Transaction wrappers (SQLiteDB, PostgresDB, MySQLDB, ORM) and the
// three BulkInsert implementations run over a model store: every driver-level
// operation (begin / statement / commit / rollback) reaches zzStore.hook,
// which keeps pending and committed writes and fails wherever the symbolic
// fault plan says so. The fault positions, the failure kinds (statement
// error returned or ignored by the callback, callback error, panic, context
// cancellation, failing Begin/Commit/Rollback) and the number of statements
// are solver variables / engine choices; the oracle is the statement of the
// property.

import (
	"context"
	"database/sql"
	"errors"

	"github.com/glyphlang/glyph/internal/zzverif"
)

var (
	zzErrBegin    = errors.New("zz: begin failed")
	zzErrStmt     = errors.New("zz: statement failed")
	zzErrCommit   = errors.New("zz: commit failed")
	zzErrRollback = errors.New("zz: rollback failed")
	zzErrCallback = errors.New("zz: callback failed")
	zzErrBusy     = errors.New("database is locked (5) (SQLITE_BUSY)")
)

const zzMaxStmts = 4

type zzStore struct {
	committed []int64
	pending   []int64
	inTx      bool
	begins    int
	commits   int
	rollbacks int
	stmts     int // statements seen by the driver (inside or outside a transaction)
	lastQuery string
	nargs     int

	failBegin, failCommit, failRollback bool
	failStmt                            [zzMaxStmts]bool
}

func (s *zzStore) hook(op, q string, args []any) error {
	switch op {
	case "begin":
		s.begins++
		if s.inTx {
			zzverif.Fail("c14-begin-while-previous-transaction-still-open")
		}
		if s.failBegin {
			return zzErrBegin
		}
		s.inTx = true
		s.pending = nil
	case "tx.exec", "exec":
		k := s.stmts
		s.stmts++
		s.lastQuery = q
		s.nargs = len(args)
		if k < zzMaxStmts && s.failStmt[k] {
			return zzErrStmt // a failing statement writes nothing
		}
		var w []int64
		for _, a := range args {
			if v, ok := a.(int64); ok {
				w = append(w, v)
			} else {
				w = append(w, -1)
			}
		}
		if op == "exec" {
			s.committed = append(s.committed, w...) // autocommit: one statement is atomic
		} else {
			if !s.inTx {
				zzverif.Fail("c14-statement-on-finished-transaction-reached-driver")
			}
			s.pending = append(s.pending, w...)
		}
	case "commit":
		s.commits++
		s.inTx = false
		if s.failCommit {
			s.pending = nil
			return zzErrCommit
		}
		s.committed = append(s.committed, s.pending...)
		s.pending = nil
	case "rollback":
		s.rollbacks++
		s.inTx = false
		s.pending = nil
		if s.failRollback {
			return zzErrRollback
		}
	}
	return nil
}

func zzNewStore(withFaults bool) *zzStore {
	s := &zzStore{}
	if withFaults {
		s.failBegin = zzverif.Bool("fail begin")
		s.failCommit = zzverif.Bool("fail commit")
		s.failRollback = zzverif.Bool("fail rollback")
		for k := range s.failStmt {
			s.failStmt[k] = zzverif.Bool("fail statement")
		}
	}
	zzverif.SetSQLHook(s.hook)
	return s
}

func zzSameInts(a, b []int64) bool {
	if len(a) != len(b) {
		return false
	}
	for k := range a {
		if a[k] != b[k] {
			return false
		}
	}
	return true
}

// zzTransact runs fn in a transaction of the chosen wrapper. which: 0 sqlite,
// 1 postgres, 2 mysql, 3 ORM over postgres (callback takes the tx from the
// context the ORM hands over).
func zzTransact(which int, db *sql.DB, ctx context.Context, fn func(*sql.Tx) error) error {
	switch which {
	case 0:
		return (&SQLiteDB{config: &Config{}, db: db}).Transaction(ctx, fn)
	case 1:
		return (&PostgresDB{config: &Config{}, db: db}).Transaction(ctx, fn)
	case 2:
		return (&MySQLDB{config: &Config{}, db: db}).Transaction(ctx, fn)
	}
	orm := NewORM(&PostgresDB{config: &Config{}, db: db}, "t")
	return orm.Transaction(ctx, func(txCtx context.Context) error {
		tx, ok := txCtx.Value(txContextKey{}).(*sql.Tx)
		if !ok || tx == nil {
			zzverif.Fail("c14-orm-transaction-context-carries-no-tx")
		}
		return fn(tx)
	})
}

// zzFaultedTransaction: one transaction of nst statements under an arbitrary
// fault plan, followed by a clean transaction on the same handle.
func zzFaultedTransaction(nst int) {
	st := zzNewStore(true)
	db := zzverif.OpenFakeDB()
	which := zzverif.Choice("wrapper", 4)
	n := zzverif.Choice("statements", nst+1)
	// position (0..n) at which the callback panics / the context is cancelled; n+1 = never
	panicAt := zzverif.Choice("panic position", n+2)
	cancelAt := zzverif.Choice("cancel position", n+2)
	retErr := zzverif.Bool("callback returns its own error")
	// which error: its own, or a context error that comes from some other,
	// unrelated context (a per-call timeout inside the callback) while the
	// transaction's own context is alive
	// or a transient-looking driver error ("database is locked") that would not
	// come again if the callback were run a second time
	errKind := zzverif.Choice("callback error kind", 4)
	var ignore [zzMaxStmts]bool
	for k := 0; k < n; k++ {
		ignore[k] = zzverif.Bool("callback ignores statement error")
	}
	st.committed = []int64{7}
	ctx, cancel := context.WithCancel(context.Background())
	defer cancel()

	var ret error
	var panicked any
	ran := false
	raised := false
	cbNil := false
	var okWrites []int64
	calls := 0
	func() {
		defer func() { panicked = recover() }()
		ret = zzTransact(which, db, ctx, func(tx *sql.Tx) error {
			ran = true
			calls++
			okWrites = nil // what counts is the run whose outcome the wrapper reports
			for j := 0; j <= n; j++ {
				if cancelAt == j {
					cancel()
				}
				if panicAt == j {
					raised = true
					panic("zz boom")
				}
				if j == n {
					break
				}
				_, err := tx.ExecContext(ctx, "INSERT INTO t (v) VALUES (?)", int64(100+j))
				if err != nil {
					if !ignore[j] {
						return err
					}
				} else {
					okWrites = append(okWrites, int64(100+j))
				}
			}
			if retErr {
				switch errKind {
				case 1:
					return context.Canceled
				case 2:
					return context.DeadlineExceeded
				case 3:
					if calls == 1 {
						return zzErrBusy
					}
					cbNil = true
					return nil
				}
				return zzErrCallback
			}
			cbNil = true
			return nil
		})
	}()
	zzverif.Yield() // natively: let database/sql's context watcher finish

	before := []int64{7}
	all := append(append([]int64{}, before...), okWrites...)
	if raised {
		zzverif.Assert(panicked != nil, "c14-panic-in-callback-swallowed")
		if s, ok := panicked.(string); ok {
			zzverif.Assert(s == "zz boom", "c14-panic-value-changed")
		} else {
			zzverif.Fail("c14-panic-value-changed")
		}
	} else {
		zzverif.Assert(panicked == nil, "c14-wrapper-panicked")
	}
	// all or nothing
	zzverif.Assert(zzSameInts(st.committed, before) || zzSameInts(st.committed, all), "c14-partial-effects-visible")
	if !cbNil || panicked != nil {
		zzverif.Assert(zzSameInts(st.committed, before), "c14-effects-committed-although-callback-failed")
	}
	if panicked == nil {
		if ret == nil {
			zzverif.Assert(ran && cbNil, "c14-success-reported-although-callback-failed")
			zzverif.Assert(zzSameInts(st.committed, all), "c14-success-reported-but-not-committed")
		} else {
			zzverif.Assert(zzSameInts(st.committed, before), "c14-error-reported-but-effects-committed")
		}
		if cbNil && !st.failCommit && cancelAt > n {
			zzverif.Assert(ret == nil, "c14-clean-transaction-reported-failure")
		}
	}
	if st.failBegin {
		zzverif.Assert(!ran, "c14-callback-ran-without-transaction")
	}
	if calls > 1 {
		// a wrapper may retry, but only from a clean slate: one rollback and one begin per extra run
		zzverif.Assert(st.begins >= calls && st.rollbacks >= calls-1, "c14-callback-rerun-inside-the-same-transaction")
	}
	zzverif.Assert(!st.inTx, "c14-transaction-left-open")
	zzverif.Assert(len(st.pending) == 0, "c14-pending-writes-left-behind")
	zzverif.Assert(st.commits+st.rollbacks <= st.begins, "c14-more-finishes-than-begins")

	// the handle stays usable: a clean transaction afterwards sees and adds exactly its own write
	st.failBegin, st.failCommit, st.failRollback = false, false, false
	st.failStmt = [zzMaxStmts]bool{}
	prev := append([]int64{}, st.committed...)
	err2 := zzTransact(which, db, context.Background(), func(tx *sql.Tx) error {
		_, err := tx.Exec("INSERT INTO t (v) VALUES (?)", int64(999))
		return err
	})
	zzverif.Assert(err2 == nil, "c14-second-transaction-failed")
	zzverif.Assert(zzSameInts(st.committed, append(prev, 999)), "c14-second-transaction-sees-leftovers")
	zzverif.Assert(!st.inTx, "c14-transaction-left-open")
	zzverif.Reach("c14-transaction")
}

func VerifC14_Transaction2() { zzFaultedTransaction(2) }
func VerifC14_Transaction3() { zzFaultedTransaction(3) }

// zzBulk: BulkInsert of rows x cols values with a fault at any statement the
// implementation issues: afterwards all rows are there or none.
func zzBulk(maxRows int) {
	st := zzNewStore(true)
	st.failBegin = false
	db := zzverif.OpenFakeDB()
	which := zzverif.Choice("dialect", 3)
	rows := zzverif.Choice("rows", maxRows+1)
	if maxRows == 999 {
		// quick variant: SQLite, 1000 rows
		zzverif.Assume(which == 0)
		rows = 1000
	} else if maxRows >= 1000 {
		// a batch beyond any per-statement parameter limit a dialect has (999 for SQLite)
		rows = []int{1000, 1200}[zzverif.Choice("rows", 2)]
	}
	cols := 1 + zzverif.Choice("cols", 2)
	columns := []string{"a", "b"}[:cols]
	var values [][]interface{}
	var want []int64
	for r := 0; r < rows; r++ {
		var row []interface{}
		for c := 0; c < cols; c++ {
			v := int64(10*r + c + 1)
			row = append(row, v)
			want = append(want, v)
		}
		values = append(values, row)
	}
	var err error
	ctx := context.Background()
	switch which {
	case 0:
		err = (&SQLiteDB{config: &Config{}, db: db}).BulkInsert(ctx, "t", columns, values)
	case 1:
		err = (&PostgresDB{config: &Config{}, db: db}).BulkInsert(ctx, "t", columns, values)
	default:
		err = (&MySQLDB{config: &Config{}, db: db}).BulkInsert(ctx, "t", columns, values)
	}
	zzverif.Yield()
	if st.stmts > 0 && rows <= 3 {
		// the statement is the plain multi-row INSERT (no conflict clause that changes what a failure leaves behind)
		pre := "INSERT INTO "
		zzverif.Assert(len(st.lastQuery) > len(pre) && st.lastQuery[:len(pre)] == pre, "c14-bulk-insert-statement-is-not-a-plain-insert")
	}
	zzverif.Assert(len(st.committed) == 0 || zzSameInts(st.committed, want), "c14-bulk-insert-partial-rows")
	if err == nil {
		zzverif.Assert(zzSameInts(st.committed, want), "c14-bulk-insert-success-but-rows-missing")
	} else {
		zzverif.Assert(len(st.committed) == 0, "c14-bulk-insert-error-but-rows-present")
	}
	if rows > 0 && !st.failStmt[0] && !st.failStmt[1] && !st.failStmt[2] && !st.failStmt[3] && !st.failCommit {
		zzverif.Assert(err == nil, "c14-bulk-insert-clean-run-failed")
	}
	zzverif.Assert(!st.inTx, "c14-transaction-left-open")
	zzverif.Reach("c14-bulk")
}

func VerifC14_BulkInsert() { zzBulk(3) }

// batches larger than the per-statement parameter limits of the dialects
func VerifC14_BulkInsertLarge()  { zzBulk(1000) }
func VerifC14_BulkInsertSQLite1000() { zzBulk(999) }

// vacuity twin: an implementation-independent wrong claim must be refuted
func VerifC14_Twin() {
	st := zzNewStore(true)
	_ = st
	db := zzverif.OpenFakeDB()
	err := zzTransact(0, db, context.Background(), func(tx *sql.Tx) error {
		_, e := tx.Exec("INSERT INTO t (v) VALUES (?)", int64(1))
		return e
	})
	zzverif.Assert(err != nil, "c14-twin")
	zzverif.Reach("c14-twin")
}

// ---------------------------------------------------------------------------
// nested transactions: a Transaction call made from inside another callback on
// the same handle is a transaction of its own - what it wrote is rolled back
// when it fails, whatever the outer one does afterwards, and committed when it
// succeeds. The store keeps pending writes per transaction (zzverif.SQLTx()).

type zzTxStore struct {
	committed []int64
	pending   map[int][]int64
	open      map[int]bool
}

func (s *zzTxStore) hook(op, q string, args []any) error {
	id := zzverif.SQLTx()
	switch op {
	case "begin":
		s.open[id] = true
		s.pending[id] = nil
	case "tx.exec":
		if !s.open[id] {
			zzverif.Fail("c14-statement-on-finished-transaction-reached-driver")
		}
		for _, a := range args {
			if v, ok := a.(int64); ok {
				s.pending[id] = append(s.pending[id], v)
			}
		}
	case "exec":
		for _, a := range args {
			if v, ok := a.(int64); ok {
				s.committed = append(s.committed, v)
			}
		}
	case "commit":
		s.committed = append(s.committed, s.pending[id]...)
		s.pending[id], s.open[id] = nil, false
	case "rollback":
		s.pending[id], s.open[id] = nil, false
	}
	return nil
}

func zzHas(xs []int64, v int64) bool {
	for _, x := range xs {
		if x == v {
			return true
		}
	}
	return false
}

// zzWrapper: one wrapper object of the chosen kind, used for every call (state
// the wrapper keeps between calls is part of what is checked)
func zzWrapper(which int, db *sql.DB) func(context.Context, func(*sql.Tx) error) error {
	switch which {
	case 0:
		w := &SQLiteDB{config: &Config{}, db: db}
		return w.Transaction
	case 1:
		w := &PostgresDB{config: &Config{}, db: db}
		return w.Transaction
	}
	w := &MySQLDB{config: &Config{}, db: db}
	return w.Transaction
}

func VerifC14_Nested() {
	st := &zzTxStore{pending: map[int][]int64{}, open: map[int]bool{}}
	zzverif.SetSQLHook(st.hook)
	db := zzverif.OpenFakeDBConns(2)
	which := zzverif.Choice("wrapper", 3)
	innerFails := zzverif.Bool("inner callback fails")
	outerSwallows := zzverif.Bool("outer callback ignores the inner failure")
	outerFails := zzverif.Bool("outer callback fails afterwards")
	innerFirst := zzverif.Bool("inner transaction before the outer write")
	ctx := context.Background()
	var innerErr error
	transact := zzWrapper(which, db)
	outerErr := transact(ctx, func(tx *sql.Tx) error {
		if !innerFirst {
			if _, err := tx.ExecContext(ctx, "INSERT INTO t (v) VALUES (?)", int64(1)); err != nil {
				return err
			}
		}
		innerErr = transact(ctx, func(tx2 *sql.Tx) error {
			if _, err := tx2.ExecContext(ctx, "INSERT INTO t (v) VALUES (?)", int64(2)); err != nil {
				return err
			}
			if innerFails {
				return zzErrCallback
			}
			return nil
		})
		if innerErr != nil && !outerSwallows {
			return innerErr
		}
		if innerFirst {
			if _, err := tx.ExecContext(ctx, "INSERT INTO t (v) VALUES (?)", int64(1)); err != nil {
				return err
			}
		}
		if outerFails {
			return zzErrCallback
		}
		return nil
	})
	zzverif.Assert((innerErr != nil) == innerFails, "c14-nested: inner transaction's outcome misreported")
	zzverif.Assert(zzHas(st.committed, 2) == !innerFails, "c14-nested: a failed inner transaction left its write behind (or a successful one lost it)")
	outerOK := !outerFails && !(innerFails && !outerSwallows)
	zzverif.Assert((outerErr == nil) == outerOK, "c14-nested: outer transaction's outcome misreported")
	zzverif.Assert(zzHas(st.committed, 1) == outerOK, "c14-nested: outer transaction's write does not follow its own outcome")
	for id, o := range st.open {
		_ = id
		zzverif.Assert(!o, "c14-transaction-left-open")
	}
	zzverif.Reach("c14-nested")
}
