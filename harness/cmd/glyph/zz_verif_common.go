package main

import (
	"net/http"

	"github.com/glyphlang/glyph/pkg/ast"
	"github.com/glyphlang/glyph/pkg/server"
)

// zzRec is a recording http.ResponseWriter.
type zzRec struct {
	hdr    http.Header
	status int
	wrote  bool
	body   []byte
}

func (r *zzRec) Header() http.Header {
	if r.hdr == nil {
		r.hdr = http.Header{}
	}
	return r.hdr
}
func (r *zzRec) Write(b []byte) (int, error) {
	if !r.wrote {
		r.wrote, r.status = true, 200
	}
	r.body = append(r.body, b...)
	return len(b), nil
}
func (r *zzRec) WriteHeader(code int) {
	if !r.wrote {
		r.wrote, r.status = true, code
	}
}

// zzChain applies a route's declared middlewares the way createHandler does.
func zzChain(route *ast.Route, body server.RouteHandler) server.RouteHandler {
	mws := routeMiddlewares(route)
	h := body
	for i := len(mws) - 1; i >= 0; i-- {
		h = mws[i](h)
	}
	return h
}

func zzServe(h server.RouteHandler, req *http.Request) (status int, err error) {
	rec := &zzRec{}
	ctx := &server.Context{Request: req, ResponseWriter: rec, StatusCode: 200}
	err = h(ctx)
	if rec.wrote {
		return rec.status, err
	}
	return ctx.StatusCode, err
}
