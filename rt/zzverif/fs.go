package zzverif

// Model file system glue. Under the engine FSDir/FSFile/FSSymlink declare a
// tree that the engine's os.* stubs resolve paths against (engine/fsmodel.go).
// Natively they build the same tree under a fresh temporary directory; FSPath
// maps a model path to its native location.

import (
	"io/fs"
	"os"
	"path/filepath"
	"time"
)

var fsRoot string

// FSReset starts a new tree.
func FSReset() {
	if fsRoot != "" {
		os.RemoveAll(fsRoot)
	}
	d, err := os.MkdirTemp("", "zzfs")
	if err != nil {
		panic(err)
	}
	// the temp dir itself may be reached through a symlink (e.g. /tmp): use its real location
	if r, err := filepath.EvalSymlinks(d); err == nil {
		d = r
	}
	fsRoot = d
}

// FSPath returns the location of model path p (absolute, slash-separated).
func FSPath(p string) string { return fsRoot + p }

func FSDir(p string) {
	if err := os.MkdirAll(FSPath(p), 0o755); err != nil {
		panic(err)
	}
}

func FSFile(p, content string) {
	FSDir(filepath.Dir(p))
	if err := os.WriteFile(FSPath(p), []byte(content), 0o644); err != nil {
		panic(err)
	}
}

// FSSymlink creates link p -> target (target is used verbatim; wrap absolute
// targets in FSPath).
func FSSymlink(p, target string) {
	FSDir(filepath.Dir(p))
	if err := os.Symlink(target, FSPath(p)); err != nil {
		panic(err)
	}
}

func FSChdir(p string) {
	if err := os.Chdir(FSPath(p)); err != nil {
		panic(err)
	}
}

// FSInfo is the fs.FileInfo / fs.DirEntry the engine's os model hands out.
type FSInfo struct {
	N string
	M fs.FileMode
	S int64
	T int64
}

func (i FSInfo) Name() string               { return i.N }
func (i FSInfo) Size() int64                { return i.S }
func (i FSInfo) Mode() fs.FileMode          { return i.M }
func (i FSInfo) ModTime() time.Time         { return time.Time{} }
func (i FSInfo) IsDir() bool                { return i.M&fs.ModeDir != 0 }
func (i FSInfo) Sys() any                   { return nil }
func (i FSInfo) Type() fs.FileMode          { return i.M & fs.ModeType }
func (i FSInfo) Info() (fs.FileInfo, error) { return i, nil }

// FSError is the error type of the engine's os model (Kind: 1 not exist,
// 2 not a directory, 3 too many links, 4 invalid argument, 5 is a directory).
type FSError struct {
	Op, Path string
	Kind     int
}

func (e *FSError) Error() string { return e.Op + " " + e.Path + ": model file system error" }

// FSRemove deletes the file at model path p (no error if it does not exist).
func FSRemove(p string) { os.Remove(FSPath(p)) }
