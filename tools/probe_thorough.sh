#!/bin/sh
# usage: tools/probe_thorough.sh <cap seconds> [ids...]
# Development: runs only the thorough-tier harnesses of each check, every harness capped,
# and lists per harness whether it finished (to decide what the thorough tier can hold).
cap="$1"; shift
ids="$*"; [ -z "$ids" ] && ids="C01 C02 C03 C04 C05 C06 C07 C08 C09 C10 C11 C12 C13 C14 C15 C16 C17 C18 C19 C20"
out=probe_thorough.txt
[ -x engine/gosym ] || sh bin/setup || exit 2
for id in $ids; do
  VERIF_VERBOSE=1 VERIF_EVIDENCE_DIR=/tmp/probe_ev engine/gosym -verif "$(pwd)" -check checks/$id.json -tier thorough -tieronly -cap $cap -noreplay > /tmp/probe_$id.log 2>&1
  echo "== $id exit $?" >> $out
  grep "^  harness \|^BROKEN" /tmp/probe_$id.log | cut -c1-200 >> $out
done
echo PROBEDONE >> $out
