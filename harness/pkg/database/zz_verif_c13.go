package database

// C13 — generated SQL is a fixed template plus validated identifiers; values
// travel only as bound parameters.

import (
	"context"
	"database/sql"

	"github.com/glyphlang/glyph/internal/zzverif"
)

// zzIdentOK is the safe identifier grammar of the property, written
// independently of the repository's regular expressions.
func zzIdentOK(s string) bool {
	if len(s) == 0 {
		return false
	}
	for i := 0; i < len(s); i++ {
		c := s[i]
		letter := (c >= 'a' && c <= 'z') || (c >= 'A' && c <= 'Z') || c == '_'
		digit := c >= '0' && c <= '9'
		if !(letter || (digit && i > 0)) {
			return false
		}
	}
	return true
}

func zzIdentHarness(n int) { zzIdentCheck(zzverif.String("name", n)) }

// identifiers spelled with letters and digits that are not ASCII (Cyrillic е,
// é, fullwidth a, Arabic-Indic digit 3): cheap for any implementation, because
// the bytes come from a small alphabet
func VerifC13_IdentUnicode4() {
	zzIdentCheck(zzverif.StringFrom("name", 4, "a_1\xd0\xb5\xc3\xa9\xef\xbd\x81\xd9\xa3"))
}

func zzIdentCheck(name string) {
	which := zzverif.Choice("sanitizer", 4)
	var out string
	var err error
	quote := byte('"')
	switch which {
	case 0:
		out, err = SanitizeIdentifier(name)
	case 1:
		out, err = SanitizeSQLiteIdentifier(name)
	case 2:
		out, err = SanitizeMySQLIdentifier(name)
		quote = '`'
	default:
		err = ValidateIdentifier(name)
		out = string(quote) + name + string(quote)
	}
	if err == nil {
		zzverif.Assert(zzIdentOK(name), "sanitizer-accepts-unsafe-identifier")
		zzverif.Assert(out == string(quote)+name+string(quote), "sanitizer-output-not-quoted-name")
	} else {
		zzverif.Assert(!zzIdentOK(name), "sanitizer-rejects-safe-identifier")
	}
	zzverif.Reach("ident")
}

func VerifC13_Ident3() { zzIdentHarness(3) }
func VerifC13_Ident4() { zzIdentHarness(4) }
func VerifC13_Ident6() { zzIdentHarness(6) }

var zzOperators = []string{"=", "!=", "<>", "<", ">", "<=", ">=", "LIKE", "ILIKE", "IN", "NOT IN", "IS", "IS NOT"}

func zzUpperTrim(s string) string {
	for len(s) > 0 && (s[0] == ' ' || s[0] == '\t' || s[0] == '\n' || s[0] == '\r' || s[0] == '\v' || s[0] == '\f') {
		s = s[1:]
	}
	for len(s) > 0 && (s[len(s)-1] == ' ' || s[len(s)-1] == '\t' || s[len(s)-1] == '\n' || s[len(s)-1] == '\r' || s[len(s)-1] == '\v' || s[len(s)-1] == '\f') {
		s = s[:len(s)-1]
	}
	b := []byte(s)
	for i := range b {
		if b[i] >= 'a' && b[i] <= 'z' {
			b[i] -= 'a' - 'A'
		}
	}
	return string(b)
}

func zzIn(s string, set []string) bool {
	for _, x := range set {
		if s == x {
			return true
		}
	}
	return false
}

// QueryBuilder.Build with symbolic table, column, operator and value.
func zzBuildWhere(nt, nc, nop int) {
	table := zzverif.String("table", nt)
	col := zzverif.String("col", nc)
	op := zzverif.StringFrom("op", nop, "=<>! lLiIkKeEnNoOtTsS;-'")
	val := zzverif.Int64("value")
	q, args, err := NewORM(nil, table).NewQueryBuilder().Select("*").Where(col, op, val).Build()
	if err == nil {
		zzverif.Assert(zzIdentOK(table) && zzIdentOK(col), "build-accepts-unsafe-identifier")
		uop := zzUpperTrim(op)
		zzverif.Assert(zzIn(uop, zzOperators), "build-accepts-operator-outside-allow-list")
		zzverif.Assert(q == `SELECT * FROM "`+table+`" WHERE "`+col+`" `+uop+` $1`, "build-sql-is-not-the-fixed-template")
		zzverif.Assert(len(args) == 1 && args[0] == interface{}(val), "build-value-not-bound-as-parameter")
	}
	zzverif.Reach("build-where")
}

func VerifC13_BuildWhere()     { zzBuildWhere(2, 2, 2) }
func VerifC13_BuildWhereLong() { zzBuildWhere(3, 3, 6) }

// SELECT list: every column is "*" or a safe identifier, quoted; nothing else
// reaches the statement text.
func zzBuildSelect(col string) {
	second := []string{"*", "id", "b"}[zzverif.Choice("second", 3)]
	q, _, err := NewORM(nil, "t").NewQueryBuilder().Select(col, second).Build()
	if err == nil {
		zzverif.Assert(col == "*" || zzIdentOK(col), "build-accepts-unsafe-select-column")
		want := func(c string) string {
			if c == "*" {
				return "*"
			}
			return `"` + c + `"`
		}
		zzverif.Assert(q == `SELECT `+want(col)+`, `+want(second)+` FROM "t"`, "build-select-sql-is-not-the-fixed-template")
	}
	zzverif.Reach("build-select")
}

func VerifC13_BuildSelect3()    { zzBuildSelect(zzverif.String("col", 3)) }
func VerifC13_BuildSelectDot5() { zzBuildSelect(zzverif.StringFrom("col", 5, "a_1.*; -\"'")) }

// JOIN type/table.
func VerifC13_BuildJoin() {
	jt := zzverif.StringFrom("jointype", 4, "iInNeErRlLfFtTuU ;")
	jtable := zzverif.String("jointable", 2)
	q, _, err := NewORM(nil, "t").NewQueryBuilder().Select("*").Join(jt, jtable, "a", "b").Build()
	if err == nil {
		zzverif.Assert(zzIdentOK(jtable), "build-accepts-unsafe-join-table")
		ujt := zzUpperTrim(jt)
		zzverif.Assert(zzIn(ujt, []string{"INNER", "LEFT", "RIGHT", "FULL"}) && len(ujt) == len(jt), "build-accepts-join-type-outside-allow-list")
		zzverif.Assert(q == `SELECT * FROM "t" `+ujt+` JOIN "`+jtable+`" ON "t"."a" = "`+jtable+`"."b"`, "build-join-sql-is-not-the-fixed-template")
	}
	zzverif.Reach("build-join")
}

// JOIN type made of a valid first word followed by more text: the whole string
// is what ends up in the statement, so the whole string must be one of the
// four join types.
func VerifC13_BuildJoinTail() {
	first := []string{"INNER", "left", "Right", "FULL"}[zzverif.Choice("first", 4)]
	tail := zzverif.StringFrom("tail", 3, " J\"a;-1")
	jt := first + tail
	q, _, err := NewORM(nil, "t").NewQueryBuilder().Select("*").Join(jt, "o", "a", "b").Build()
	if err == nil {
		ujt := zzUpperTrim(jt)
		zzverif.Assert(zzIn(ujt, []string{"INNER", "LEFT", "RIGHT", "FULL"}), "build-accepts-join-type-outside-allow-list")
		zzverif.Assert(q == `SELECT * FROM "t" `+ujt+` JOIN "o" ON "t"."a" = "o"."b"`, "build-join-sql-is-not-the-fixed-template")
	}
	zzverif.Reach("build-join-tail")
}

// ORDER BY column/direction: whatever Build makes of the two strings, the
// clause must be ` ORDER BY "<safe identifier>" ASC|DESC`.
func VerifC13_BuildOrder() {
	col := zzverif.StringFrom("ordercol", 3, "aA1_ ;\"'-")
	dir := zzverif.StringFrom("dir", 4, "aAsScCdDeE ;-")
	q, _, err := NewORM(nil, "t").NewQueryBuilder().Select("*").OrderBy(col, dir).Build()
	if err == nil {
		pre := `SELECT * FROM "t"`
		zzverif.Assert(len(q) >= len(pre) && q[:len(pre)] == pre, "build-order-sql-is-not-the-fixed-template")
		rest := q[len(pre):]
		if rest != "" {
			head := ` ORDER BY "`
			zzverif.Assert(len(rest) > len(head) && rest[:len(head)] == head, "build-order-by-is-not-the-fixed-template")
			body := rest[len(head):]
			var ident string
			switch {
			case len(body) > 5 && body[len(body)-5:] == `" ASC`:
				ident = body[:len(body)-5]
			case len(body) > 6 && body[len(body)-6:] == `" DESC`:
				ident = body[:len(body)-6]
			default:
				zzverif.Fail("build-order-direction-outside-allow-list")
			}
			zzverif.Assert(zzIdentOK(ident), "build-order-by-unsafe-identifier")
		}
	}
	zzverif.Reach("build-order")
}

// --- ORM statements through a capturing Database ----------------------------

type zzCaptured struct {
	query string
	args  []interface{}
}

type zzCaptureDB struct{}

func (zzCaptureDB) Connect(ctx context.Context) error { return nil }
func (zzCaptureDB) Close() error                      { return nil }
func (zzCaptureDB) Ping(ctx context.Context) error    { return nil }
func (zzCaptureDB) Query(ctx context.Context, q string, a ...interface{}) (*sql.Rows, error) {
	panic(zzCaptured{q, a})
}
func (zzCaptureDB) QueryRow(ctx context.Context, q string, a ...interface{}) *sql.Row {
	panic(zzCaptured{q, a})
}
func (zzCaptureDB) Exec(ctx context.Context, q string, a ...interface{}) (sql.Result, error) {
	panic(zzCaptured{q, a})
}
func (zzCaptureDB) Begin(ctx context.Context) (*sql.Tx, error) { return nil, sql.ErrConnDone }
func (zzCaptureDB) BeginTx(ctx context.Context, o *sql.TxOptions) (*sql.Tx, error) {
	return nil, sql.ErrConnDone
}
func (zzCaptureDB) Prepare(ctx context.Context, q string) (*sql.Stmt, error) {
	return nil, sql.ErrConnDone
}
func (zzCaptureDB) Stats() sql.DBStats { return sql.DBStats{} }
func (zzCaptureDB) Driver() string     { return "zz" }

func zzCapture(f func()) (c zzCaptured, ok bool) {
	defer func() {
		if p := recover(); p != nil {
			if cc, isC := p.(zzCaptured); isC {
				c, ok = cc, true
				return
			}
			panic(p)
		}
	}()
	f()
	return
}

func VerifC13_ORMStatements() {
	table := zzverif.String("table", 2)
	col := zzverif.String("col", 2)
	val := zzverif.Int64("value")
	id := zzverif.Int64("id")
	o := NewORM(zzCaptureDB{}, table)
	ctx := context.Background()
	switch zzverif.Choice("stmt", 4) {
	case 0:
		c, ok := zzCapture(func() { o.Create(ctx, map[string]interface{}{col: val}) })
		if ok {
			zzverif.Assert(zzIdentOK(table) && zzIdentOK(col), "create-accepts-unsafe-identifier")
			zzverif.Assert(c.query == `INSERT INTO "`+table+`" ("`+col+`") VALUES ($1) RETURNING *`, "create-sql-is-not-the-fixed-template")
			zzverif.Assert(len(c.args) == 1 && c.args[0] == interface{}(val), "create-value-not-bound")
		}
	case 1:
		c, ok := zzCapture(func() { o.Update(ctx, id, map[string]interface{}{col: val}) })
		if ok {
			zzverif.Assert(zzIdentOK(table) && zzIdentOK(col), "update-accepts-unsafe-identifier")
			zzverif.Assert(c.query == `UPDATE "`+table+`" SET "`+col+`" = $1 WHERE "id" = $2 RETURNING *`, "update-sql-is-not-the-fixed-template")
			zzverif.Assert(len(c.args) == 2 && c.args[0] == interface{}(val) && c.args[1] == interface{}(id), "update-values-not-bound")
		}
	case 2:
		c, ok := zzCapture(func() { o.Delete(ctx, id) })
		if ok {
			zzverif.Assert(zzIdentOK(table), "delete-accepts-unsafe-identifier")
			zzverif.Assert(c.query == `DELETE FROM "`+table+`" WHERE "id" = $1`, "delete-sql-is-not-the-fixed-template")
			zzverif.Assert(len(c.args) == 1 && c.args[0] == interface{}(id), "delete-value-not-bound")
		}
	default:
		op := zzverif.StringFrom("op", 2, "=<>! ;-'")
		c, ok := zzCapture(func() { o.Count(ctx, WhereCondition{Column: col, Operator: op, Value: val}) })
		if ok {
			zzverif.Assert(zzIdentOK(table) && zzIdentOK(col), "count-accepts-unsafe-identifier")
			uop := zzUpperTrim(op)
			zzverif.Assert(zzIn(uop, zzOperators), "count-accepts-operator-outside-allow-list")
			zzverif.Assert(c.query == `SELECT COUNT(*) FROM "`+table+`" WHERE "`+col+`" `+uop+` $1`, "count-sql-is-not-the-fixed-template")
		}
	}
	zzverif.Reach("orm")
}

// A column type must stay inside one column definition: only the characters of
// the type/modifier grammar, balanced un-nested parentheses, commas only inside them.
func zzColumnTypeOK(s string) bool {
	depth := 0
	for i := 0; i < len(s); i++ {
		c := s[i]
		ok := (c >= 'a' && c <= 'z') || (c >= 'A' && c <= 'Z') || (c >= '0' && c <= '9') || c == '_' || c == ' ' || c == '(' || c == ')' || c == ',' || c == '.'
		if !ok {
			return false
		}
		switch c {
		case '(':
			depth++
			if depth > 1 {
				return false
			}
		case ')':
			depth--
			if depth < 0 {
				return false
			}
		case ',':
			if depth == 0 {
				return false
			}
		}
	}
	return depth == 0
}

func zzColumnType(n int) {
	// "INT" + n symbolic bytes over the characters the repository's pattern lets through
	t := "INT" + zzverif.StringFrom("tail", n, " (),.1aA_;-'\"")
	var out string
	var err error
	switch zzverif.Choice("dialect", 3) {
	case 0:
		out, err = sanitizeSQLiteColumnType(t)
	case 1:
		out, err = sanitizeColumnType(t)
	default:
		out, err = sanitizeMySQLColumnType(t)
	}
	if err == nil {
		zzverif.Assert(out == t, "column-type-rewritten")
		zzverif.Assert(zzColumnTypeOK(t), "column-type-outside-the-safe-grammar-accepted")
	}
	zzverif.Reach("coltype")
}

func VerifC13_ColumnType4() { zzColumnType(4) }
func VerifC13_ColumnType6() { zzColumnType(6) }

func VerifC13_Twin() {
	name := zzverif.String("name", 2)
	_, err := SanitizeIdentifier(name)
	zzverif.Assert(err != nil, "twin-must-fail")
	zzverif.Reach("twin")
}

// One builder used more than once (pagination helpers re-sort and re-run the
// same builder): every Build validates what the builder holds at that moment.
// A valid ORDER BY / WHERE first, Build, then caller-supplied strings, Build
// again: the second statement is as constrained as one from a fresh builder.
func VerifC13_BuilderReuse() {
	qb := NewORM(nil, "t").NewQueryBuilder().Select("*")
	which := zzverif.Choice("clause changed after the first Build", 2)
	if which == 0 {
		qb = qb.OrderBy("name", "ASC")
	} else {
		qb = qb.Where("name", "=", 1)
	}
	_, _, err := qb.Build()
	zzverif.Assert(err == nil, "builder-reuse: the valid first statement was rejected")
	col := zzverif.StringFrom("col", 3, "aA1_ ;\"'-")
	var q string
	if which == 0 {
		dir := []string{"ASC", "desc", "ASC; DROP TABLE t", "x"}[zzverif.Choice("dir", 4)]
		q, _, err = qb.OrderBy(col, dir).Build()
	} else {
		q, _, err = qb.Where(col, "=", 2).Build()
	}
	if err == nil {
		// every double-quoted stretch of the statement is a safe identifier and nothing
		// of the caller's text stands outside quotes
		inQuote, start := false, 0
		for i := 0; i < len(q); i++ {
			if q[i] == '"' {
				if inQuote {
					zzverif.Assert(zzIdentOK(q[start:i]), "builder-reuse: unsafe identifier in the second statement")
				} else {
					start = i + 1
				}
				inQuote = !inQuote
			} else if !inQuote {
				c := q[i]
				zzverif.Assert(c != ';' && c != '\'' && c != '-', "builder-reuse: caller text outside an identifier in the second statement")
			}
		}
		zzverif.Assert(!inQuote, "builder-reuse: unbalanced quote in the second statement")
		if which == 0 {
			zzverif.Assert(len(q) > 4 && (q[len(q)-4:] == " ASC" || q[len(q)-5:] == " DESC"), "builder-reuse: direction outside the allow-list in the second statement")
		}
	}
	zzverif.Reach("builder-reuse")
}

// identifiers longer than any database's name limit (63 bytes in PostgreSQL):
// the whole string is validated, not a prefix of it
func VerifC13_LongIdentifier() {
	n := []int{60, 62, 63, 64, 70}[zzverif.Choice("clean prefix length", 5)]
	prefix := ""
	for len(prefix) < n {
		prefix += "abcdefghij"
	}
	prefix = prefix[:n]
	tail := zzverif.StringFrom("tail", 2, "a1_\"; -")
	id := prefix + tail
	safe := zzIdentOK(id)
	for k, f := range []func(string) (string, error){SanitizeIdentifier, SanitizeMySQLIdentifier, SanitizeSQLiteIdentifier} {
		out, err := f(id)
		name := []string{"postgres", "mysql", "sqlite"}[k]
		if err == nil {
			zzverif.Assert(safe, "long identifier with an unsafe tail accepted by the "+name+" sanitizer")
			zzverif.Assert(len(out) >= len(id), "long identifier truncated by the "+name+" sanitizer")
		}
	}
	q, _, err := NewORM(nil, id).NewQueryBuilder().Select("*").Build()
	if err == nil {
		zzverif.Assert(safe, "long table name with an unsafe tail accepted by the query builder")
		_ = q
	}
	zzverif.Reach("long-ident")
}
