package main

import (
	"fmt"

	"go/types"
	"strings"

	"golang.org/x/tools/go/ssa"
)

type ssaFunc = ssa.Function

var allFuncsCache map[string]*ssa.Function

func (i *interpreter) findFuncByName(name string) *ssa.Function {
	fnInfoMu.Lock()
	defer fnInfoMu.Unlock()
	if allFuncsCache == nil {
		allFuncsCache = map[string]*ssa.Function{}
	}
	if f, ok := allFuncsCache[name]; ok {
		return f
	}
	var found *ssa.Function
	var visit func(fn *ssa.Function)
	visit = func(fn *ssa.Function) {
		if fn == nil || found != nil {
			return
		}
		if fn.String() == name {
			found = fn
			return
		}
		for _, a := range fn.AnonFuncs {
			visit(a)
		}
	}
	for _, pkg := range i.prog.AllPackages() {
		if !strings.Contains(name, pkg.Pkg.Path()) {
			continue
		}
		for _, m := range pkg.Members {
			switch m := m.(type) {
			case *ssa.Function:
				visit(m)
			case *ssa.Type:
				for _, t := range []types.Type{m.Type(), types.NewPointer(m.Type())} {
					ms := i.prog.MethodSets.MethodSet(t)
					for k := 0; k < ms.Len(); k++ {
						if strings.Contains(name, ms.At(k).Obj().Name()) {
							visit(i.prog.MethodValue(ms.At(k)))
						}
					}
				}
			}
		}
	}
	allFuncsCache[name] = found
	return found
}

// uptr models the result of unsafe.SliceData / unsafe.StringData: it keeps
// the backing sequence so that unsafe.String / unsafe.Slice can rebuild it.
type uptr struct {
	sl  []value
	str value
}

func unsafeData(fr *frame, args []value) value {
	switch x := args[0].(type) {
	case []value:
		return &uptr{sl: x}
	case string, symstr:
		return &uptr{str: x}
	}
	panic(engineErr{fmt.Sprintf("UNSUPPORTED unsafe data of %T", args[0])})
}

func unsafeString(fr *frame, args []value) value {
	n := int(fr.concInt(args[1], 0, 1<<30, "unsafe.String len"))
	switch p := args[0].(type) {
	case *uptr:
		if p.str != nil {
			return mkstr(append([]value(nil), bytesOfStr(p.str)[:n]...))
		}
		return mkstr(append([]value(nil), p.sl[:n]...))
	case *value:
		if n == 0 {
			return ""
		}
	}
	panic(engineErr{fmt.Sprintf("UNSUPPORTED unsafe.String of %T", args[0])})
}

func unsafeSlice(fr *frame, args []value) value {
	n := int(fr.concInt(args[1], 0, 1<<30, "unsafe.Slice len"))
	switch p := args[0].(type) {
	case *uptr:
		if p.str != nil {
			return append([]value(nil), bytesOfStr(p.str)[:n]...)
		}
		return p.sl[:n]
	}
	panic(engineErr{fmt.Sprintf("UNSUPPORTED unsafe.Slice of %T", args[0])})
}

func (i *interpreter) applyScale(cfg *harnessCfg) {
	i.scale = nil
	i.scalePkg = nil
	for _, sc := range cfg.Scale {
		if sc.Pkg != "" {
			i.scalePkg = append(i.scalePkg, pkgScale{sc.Pkg, sc.Type, sc.From, sc.To})
			continue
		}
		fn := i.findFuncByName(sc.Func)
		if fn == nil {
			panic(engineErr{"scale: function not found: " + sc.Func})
		}
		if i.scale == nil {
			i.scale = map[*ssaFunc]map[int64]int64{}
		}
		if i.scale[fn] == nil {
			i.scale[fn] = map[int64]int64{}
		}
		i.scale[fn][sc.From] = sc.To
	}
}

func (i *interpreter) unapplyScale(cfg *harnessCfg) { i.scale, i.scalePkg = nil, nil }

// pkgScale: a constant substitution for every function of one package,
// restricted to constants of one basic type (robust against the guard moving
// into a helper function).
type pkgScale struct {
	pkg, typ string
	from, to int64
}
