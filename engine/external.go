package main

// Engine-implemented functions: everything that leaves pure Go (assembly,
// unsafe, runtime, OS) plus fast native paths for pure functions on concrete
// arguments. Key strings are from (*ssa.Function).String().

import (
	"fmt"
	"go/token"
	"go/types"
	"math"
	"strconv"
	"strings"
	"unicode/utf8"
)

type externalFn func(fr *frame, args []value) value

// fallThrough, returned by an external, makes the engine interpret the
// function's own body instead.
type fallThroughT struct{}

var fallThrough = fallThroughT{}

var externals = make(map[string]externalFn)

// packages whose init functions are never run (their globals stay zero;
// everything reachable in them is stubbed or is an engine error).
var noInitPrefixes = []string{
	"os", "syscall", "runtime", "internal/", "net", "crypto", "reflect", "log", "database/sql",
	"testing", "sync", "unsafe", "plugin", "os/", "encoding/json", "encoding/gob", "mime", "compress/",
	"vendor/", "golang.org/", "google.golang.org/", "go.opentelemetry.io/", "github.com/prometheus",
	"github.com/spf13", "github.com/fsnotify", "github.com/go-sql-driver", "github.com/lib/pq",
	"modernc.org/", "go.mongodb.org/", "github.com/redis", "github.com/modelcontextprotocol",
	"github.com/gorilla", "github.com/google/uuid", "github.com/fatih", "github.com/mattn", "gopkg.in/",
	"github.com/stretchr", "github.com/davecgh", "github.com/pmezard", "html/template", "text/template",
	"regexp", "hash", "image", "archive", "embed", "expvar", "flag", "go/", "debug/", "iter", "weak", "unique",
	"github.com/cespare", "github.com/beorn7", "github.com/klauspost", "github.com/dustin", "github.com/ncruces",
	"github.com/remyoudompheng", "filippo.io", "github.com/yosida", "github.com/go-logr", "github.com/cenkalti",
	"github.com/grpc-ecosystem", "github.com/inconshreveable", "github.com/munnerz", "github.com/xdg-go", "github.com/youmark",
	"github.com/golang", "github.com/montanaflynn", "github.com/dgryski", "go.uber.org", "github.com/google/",
	"github.com/segmentio", "github.com/yuin", "math/rand", "bufio", "io/", "path/filepath", "time",
}

var initAllow = map[string]bool{
	"io/fs": false,
}

var initAllowed = map[string]bool{
	"internal/strconv": true, "internal/oserror": true, "internal/itoa": true, "internal/stringslite": true, "internal/byteorder": true,
	"net/url": true, "path/filepath": false, "io/fs": true, "bufio": true, "time": false,
}

func skipInit(path string) bool {
	if strings.HasPrefix(path, "github.com/glyphlang/glyph") {
		return false
	}
	if initAllowed[path] {
		return false
	}
	for _, p := range noInitPrefixes {
		if path == p || strings.HasPrefix(path, p) && (strings.HasSuffix(p, "/") || len(path) > len(p) && path[len(p)] == '/' || strings.HasSuffix(p, ".")) {
			return true
		}
		if strings.HasPrefix(path, p) && strings.Contains(p, ".") {
			return true
		}
	}
	return false
}

func goStr(v value) (string, bool) {
	s, ok := v.(string)
	return s, ok
}

func allConcrete(args []value) bool {
	for _, a := range args {
		switch a := a.(type) {
		case *sym, symstr, *opaqueStr:
			return false
		case []value:
			for _, e := range a {
				if hasSym(e) {
					return false
				}
			}
		}
	}
	return true
}

func goStrSlice(v value) []string {
	sl := v.([]value)
	r := make([]string, len(sl))
	for k, e := range sl {
		r[k] = e.(string)
	}
	return r
}

func valStrSlice(ss []string) value {
	if ss == nil {
		return []value(nil)
	}
	r := make([]value, len(ss))
	for k, s := range ss {
		r[k] = s
	}
	return r
}

func goBytes(v value) []byte {
	sl := v.([]value)
	r := make([]byte, len(sl))
	for k, e := range sl {
		r[k] = e.(uint8)
	}
	return r
}

func valBytes(b []byte) value {
	r := make([]value, len(b))
	for k, c := range b {
		r[k] = c
	}
	return r
}

func nop(fr *frame, args []value) value { return nil }

func init() {
	for name, f := range map[string]externalFn{
		// ---- runtime -------------------------------------------------
		"runtime.GC":            nop,
		"runtime.Gosched":       func(fr *frame, a []value) value { fr.i.sched.yield(fr); return nil },
		"runtime.NumCPU":        func(fr *frame, a []value) value { return 4 },
		"runtime.GOMAXPROCS":    func(fr *frame, a []value) value { return 4 },
		"runtime.NumGoroutine":  func(fr *frame, a []value) value { return len(fr.i.sched.threads) },
		"runtime.KeepAlive":     nop,
		"runtime.SetFinalizer":  nop,
		"runtime.Stack":         func(fr *frame, a []value) value { return 0 },
		"runtime/debug.Stack":   func(fr *frame, a []value) value { return valBytes([]byte("<stack>")) },
		"runtime/debug.PrintStack": nop,
		"runtime.Caller": func(fr *frame, a []value) value {
			return tuple{uintptr(0), "", 0, false}
		},
		"runtime.Goexit": func(fr *frame, a []value) value { panic(threadKill{}) },
		"runtime.ReadMemStats": nop,

		// ---- sync ------------------------------------------------------
		"(*sync.Mutex).Lock":      func(fr *frame, a []value) value { mutexLock(fr, a[0].(*value)); return nil },
		"(*sync.Mutex).Unlock":    func(fr *frame, a []value) value { mutexUnlock(fr, a[0].(*value)); return nil },
		"(*sync.Mutex).TryLock":   func(fr *frame, a []value) value { return mutexTryLock(fr, a[0].(*value)) },
		"(*sync.RWMutex).Lock":    func(fr *frame, a []value) value { mutexLock(fr, a[0].(*value)); return nil },
		"(*sync.RWMutex).Unlock":  func(fr *frame, a []value) value { mutexUnlock(fr, a[0].(*value)); return nil },
		"(*sync.RWMutex).RLock":   func(fr *frame, a []value) value { rwRLock(fr, a[0].(*value)); return nil },
		"(*sync.RWMutex).RUnlock": func(fr *frame, a []value) value { rwRUnlock(fr, a[0].(*value)); return nil },
		"(*sync.RWMutex).TryLock": func(fr *frame, a []value) value { return mutexTryLock(fr, a[0].(*value)) },
		"(*sync.WaitGroup).Add": func(fr *frame, a []value) value {
			w := fr.i.wgOf(a[0].(*value))
			w.n += asInt64(a[1])
			if w.n < 0 {
				panic(targetPanic{iface{fr.i.runtimeErrorString, "sync: negative WaitGroup counter"}})
			}
			if asInt64(a[1]) < 0 {
				fr.i.sched.release(fr, &w.vc)
			}
			return nil
		},
		"(*sync.WaitGroup).Done": func(fr *frame, a []value) value {
			w := fr.i.wgOf(a[0].(*value))
			w.n--
			if w.n < 0 {
				panic(targetPanic{iface{fr.i.runtimeErrorString, "sync: negative WaitGroup counter"}})
			}
			fr.i.sched.release(fr, &w.vc)
			return nil
		},
		"(*sync.WaitGroup).Wait": func(fr *frame, a []value) value {
			w := fr.i.wgOf(a[0].(*value))
			fr.i.sched.point(fr, "WaitGroup.Wait")
			fr.i.sched.block(fr, func() bool { return w.n == 0 }, "sync.WaitGroup.Wait")
			fr.i.sched.acquire(fr, &w.vc)
			return nil
		},
		"(*sync.WaitGroup).Go": func(fr *frame, a []value) value {
			i := fr.i
			p := a[0].(*value)
			w := i.wgOf(p)
			w.n++
			f := a[1]
			i.sched.spawn(fr, fr.callpos, &nativeFunc{name: "wg.Go", f: func(fr2 *frame, _ []value) value {
				defer func() {
					w.n--
					i.sched.release(fr2, &w.vc)
				}()
				call(i, fr2, fr.callpos, f, nil)
				return nil
			}}, nil)
			return nil
		},
		"(*sync.Once).Do": func(fr *frame, a []value) value {
			i := fr.i
			p := a[0].(*value)
			st := (*p).(structure)
			// field 0: done atomic.Uint32{ _ noCopy; v uint32 } — keep state in the struct itself so that
			// Once values initialised during package init stay done.
			done := onceDoneCell(st)
			m := i.mutexOf(p)
			if asInt64(*done) != 0 {
				i.sched.acquire(fr, &m.vc)
				return nil
			}
			mutexLock(fr, p)
			if asInt64(*done) == 0 {
				func() {
					defer func() {
						i.setCell(done, uint32(1))
						mutexUnlock(fr, p)
					}()
					call(i, fr, fr.callpos, a[1], nil)
				}()
			} else {
				mutexUnlock(fr, p)
			}
			return nil
		},
		// sync.Pool keeps what is Put and hands it out again, most recent
		// first (one of the behaviours the runtime may show, and the usual
		// one on one P); an empty pool calls New.
		"(*sync.Pool).Get": func(fr *frame, a []value) value {
			p := a[0].(*value)
			tab, _ := fr.i.side["syncpool"].(map[*value][]value)
			if items := tab[p]; len(items) > 0 {
				v := items[len(items)-1]
				tab[p] = items[:len(items)-1]
				return v
			}
			st := (*p).(structure)
			newf := st[len(st)-1]
			if isNilRef(newf) {
				return iface{}
			}
			return call(fr.i, fr, fr.callpos, newf, nil)
		},
		"(*sync.Pool).Put": func(fr *frame, a []value) value {
			p := a[0].(*value)
			tab, _ := fr.i.side["syncpool"].(map[*value][]value)
			if tab == nil {
				tab = map[*value][]value{}
				fr.i.side["syncpool"] = tab
			}
			if x, ok := a[1].(iface); ok && x.t == nil {
				return nil
			}
			tab[p] = append(tab[p], a[1])
			return nil
		},

		// ---- sync/atomic ----------------------------------------------
		"sync/atomic.LoadInt32":   atomicLoad,
		"sync/atomic.LoadInt64":   atomicLoad,
		"sync/atomic.LoadUint32":  atomicLoad,
		"sync/atomic.LoadUint64":  atomicLoad,
		"sync/atomic.LoadUintptr": atomicLoad,
		"sync/atomic.LoadPointer": atomicLoad,
		"sync/atomic.StoreInt32":   atomicStore,
		"sync/atomic.StoreInt64":   atomicStore,
		"sync/atomic.StoreUint32":  atomicStore,
		"sync/atomic.StoreUint64":  atomicStore,
		"sync/atomic.StoreUintptr": atomicStore,
		"sync/atomic.StorePointer": atomicStore,
		"sync/atomic.AddInt32":   atomicAdd,
		"sync/atomic.AddInt64":   atomicAdd,
		"sync/atomic.AddUint32":  atomicAdd,
		"sync/atomic.AddUint64":  atomicAdd,
		"sync/atomic.AddUintptr": atomicAdd,
		"sync/atomic.SwapInt32":   atomicSwap,
		"sync/atomic.SwapInt64":   atomicSwap,
		"sync/atomic.SwapUint32":  atomicSwap,
		"sync/atomic.SwapUint64":  atomicSwap,
		"sync/atomic.SwapPointer": atomicSwap,
		"sync/atomic.CompareAndSwapInt32":   atomicCAS,
		"sync/atomic.CompareAndSwapInt64":   atomicCAS,
		"sync/atomic.CompareAndSwapUint32":  atomicCAS,
		"sync/atomic.CompareAndSwapUint64":  atomicCAS,
		"sync/atomic.CompareAndSwapPointer": atomicCAS,
		"(*sync/atomic.Value).Load": func(fr *frame, a []value) value {
			p := a[0].(*value)
			fr.i.atomicSync(fr, p, false)
			return (*p).(structure)[0]
		},
		"(*sync/atomic.Value).Store": func(fr *frame, a []value) value {
			p := a[0].(*value)
			fr.i.atomicSync(fr, p, true)
			fr.i.setCell(&(*p).(structure)[0], a[1])
			return nil
		},

		// ---- unsafe-using bits of strings/bytes ---------------------------
		"(*strings.Builder).String": func(fr *frame, a []value) value {
			for _, e := range builderBuf(a[0]) {
				if _, isM := e.(opaqueMark); isM {
					return fr.i.newOpaque("Builder")
				}
			}
			return mkstr(append([]value(nil), builderBuf(a[0])...))
		},
		"(*strings.Builder).Len":  func(fr *frame, a []value) value { return len(builderBuf(a[0])) },
		"(*strings.Builder).Cap":  func(fr *frame, a []value) value { return cap(builderBuf(a[0])) },
		"(*strings.Builder).Reset": func(fr *frame, a []value) value { builderSet(fr, a[0], nil); return nil },
		"(*strings.Builder).Grow": nop,
		"(*strings.Builder).WriteString": func(fr *frame, a []value) value {
			if _, ok := a[1].(*opaqueStr); ok {
				builderSet(fr, a[0], append(builderBuf(a[0]), value(opaqueMark{})))
				return tuple{1, iface{}}
			}
			b := bytesOfStr(a[1])
			builderSet(fr, a[0], append(builderBuf(a[0]), b...))
			return tuple{len(b), iface{}}
		},
		"(*strings.Builder).Write": func(fr *frame, a []value) value {
			b := a[1].([]value)
			builderSet(fr, a[0], append(builderBuf(a[0]), b...))
			return tuple{len(b), iface{}}
		},
		"(*strings.Builder).WriteByte": func(fr *frame, a []value) value {
			builderSet(fr, a[0], append(builderBuf(a[0]), a[1]))
			return iface{}
		},
		"(*strings.Builder).WriteRune": func(fr *frame, a []value) value {
			var r rune
			switch x := a[1].(type) {
			case int32:
				r = x
			case *sym:
				ts := fr.i.ts
				if fr.cond(boolVal(ts.bvCmp("bvult", x.t, ts.BV(0x80, 32)))) {
					builderSet(fr, a[0], append(builderBuf(a[0]), value(&sym{ts.Resize(x.t, 8, false)})))
					return tuple{1, iface{}}
				}
				r = rune(signExt(fr.concretize(x, "WriteRune"), 32))
			}
			var buf [4]byte
			n := utf8.EncodeRune(buf[:], r)
			builderSet(fr, a[0], append(builderBuf(a[0]), valBytes(buf[:n]).([]value)...))
			return tuple{n, iface{}}
		},
		"strings.Clone": func(fr *frame, a []value) value { return a[0] },
		"internal/stringslite.Clone": func(fr *frame, a []value) value { return a[0] },
		"internal/bytealg.MakeNoZero": func(fr *frame, a []value) value {
			n := fr.concInt(a[0], 0, fr.i.cfg.MaxAlloc, "MakeNoZero")
			r := make([]value, n)
			for k := range r {
				r[k] = uint8(0)
			}
			return r
		},
		"internal/bytealg.IndexByteString": func(fr *frame, a []value) value { return indexByte(fr, bytesOfStr(a[0]), a[1]) },
		"internal/bytealg.IndexByte":       func(fr *frame, a []value) value { return indexByte(fr, a[0].([]value), a[1]) },
		"internal/bytealg.LastIndexByteString": func(fr *frame, a []value) value { return lastIndexByte(fr, bytesOfStr(a[0]), a[1]) },
		"internal/bytealg.LastIndexByte":       func(fr *frame, a []value) value { return lastIndexByte(fr, a[0].([]value), a[1]) },
		"internal/bytealg.CountString": func(fr *frame, a []value) value { return countByte(fr, bytesOfStr(a[0]), a[1]) },
		"internal/bytealg.Count":       func(fr *frame, a []value) value { return countByte(fr, a[0].([]value), a[1]) },
		"internal/bytealg.Equal": func(fr *frame, a []value) value {
			return bytesEq(fr, a[0].([]value), a[1].([]value))
		},
		"bytes.Equal": func(fr *frame, a []value) value {
			return bytesEq(fr, a[0].([]value), a[1].([]value))
		},
		"internal/bytealg.Compare": func(fr *frame, a []value) value {
			return bytesCompare(fr, a[0].([]value), a[1].([]value))
		},
		"internal/bytealg.CompareString": func(fr *frame, a []value) value {
			return bytesCompare(fr, bytesOfStr(a[0]), bytesOfStr(a[1]))
		},
		"strings.Compare": func(fr *frame, a []value) value {
			return bytesCompare(fr, bytesOfStr(a[0]), bytesOfStr(a[1]))
		},
		"internal/bytealg.IndexString": func(fr *frame, a []value) value {
			return indexSub(fr, bytesOfStr(a[0]), bytesOfStr(a[1]))
		},
		"internal/bytealg.Index": func(fr *frame, a []value) value {
			return indexSub(fr, a[0].([]value), a[1].([]value))
		},
		"strings.Index": func(fr *frame, a []value) value {
			if s, ok := goStr(a[0]); ok {
				if t, ok := goStr(a[1]); ok {
					return strings.Index(s, t)
				}
			}
			return indexSub(fr, bytesOfStr(a[0]), bytesOfStr(a[1]))
		},
		"internal/bytealg.Cutover": func(fr *frame, a []value) value { return 1 << 30 },

		// native fast paths (concrete arguments only)
		"strings.ToLower":    strFast1(strings.ToLower),
		"strings.ToUpper":    strFast1(strings.ToUpper),
		"strings.TrimSpace":  strFast1(strings.TrimSpace),
		"strings.Contains":   strFast2b(strings.Contains),
		"strings.HasPrefix":  strFast2b(strings.HasPrefix),
		"strings.HasSuffix":  strFast2b(strings.HasSuffix),
		"strings.EqualFold":  strFast2b(strings.EqualFold),
		"strings.TrimPrefix": strFast2s(strings.TrimPrefix),
		"strings.TrimSuffix": strFast2s(strings.TrimSuffix),
		"strings.Trim":       strFast2s(strings.Trim),
		"strings.TrimLeft":   strFast2s(strings.TrimLeft),
		"strings.TrimRight":  strFast2s(strings.TrimRight),
		"strings.LastIndex": func(fr *frame, a []value) value {
			if allConcrete(a) {
				return strings.LastIndex(a[0].(string), a[1].(string))
			}
			return fallThrough
		},
		"strings.Count": func(fr *frame, a []value) value {
			if allConcrete(a) {
				return strings.Count(a[0].(string), a[1].(string))
			}
			return fallThrough
		},
		"strings.Repeat": func(fr *frame, a []value) value {
			if allConcrete(a) {
				n := a[1].(int)
				if n >= 0 && int64(n)*int64(len(a[0].(string))) < fr.i.cfg.MaxAlloc {
					return strings.Repeat(a[0].(string), n)
				}
			}
			return fallThrough
		},
		"strings.ReplaceAll": func(fr *frame, a []value) value {
			if allConcrete(a) {
				return strings.ReplaceAll(a[0].(string), a[1].(string), a[2].(string))
			}
			return fallThrough
		},
		"strings.Replace": func(fr *frame, a []value) value {
			if allConcrete(a) {
				return strings.Replace(a[0].(string), a[1].(string), a[2].(string), a[3].(int))
			}
			return fallThrough
		},
		"strings.Split": func(fr *frame, a []value) value {
			if allConcrete(a) {
				return valStrSlice(strings.Split(a[0].(string), a[1].(string)))
			}
			return fallThrough
		},
		"strings.SplitN": func(fr *frame, a []value) value {
			if allConcrete(a) {
				return valStrSlice(strings.SplitN(a[0].(string), a[1].(string), a[2].(int)))
			}
			return fallThrough
		},
		"strings.Fields": func(fr *frame, a []value) value {
			if allConcrete(a) {
				return valStrSlice(strings.Fields(a[0].(string)))
			}
			return fallThrough
		},
		"strings.Join": func(fr *frame, a []value) value {
			if allConcrete(a) {
				return strings.Join(goStrSlice(a[0]), a[1].(string))
			}
			// symbolic-aware join
			var out []value
			for _, e := range a[0].([]value) {
				if _, isO := e.(*opaqueStr); isO {
					return fr.i.newOpaque("Join")
				}
			}
			if _, isO := a[1].(*opaqueStr); isO {
				return fr.i.newOpaque("Join")
			}
			sep := bytesOfStr(a[1])
			for k, e := range a[0].([]value) {
				if k > 0 {
					out = append(out, sep...)
				}
				out = append(out, bytesOfStr(e)...)
			}
			return mkstr(out)
		},
		"unicode/utf8.RuneCountInString": func(fr *frame, a []value) value {
			if s, ok := goStr(a[0]); ok {
				return utf8.RuneCountInString(s)
			}
			return fallThrough
		},
		"unicode/utf8.ValidString": func(fr *frame, a []value) value {
			if s, ok := goStr(a[0]); ok {
				return utf8.ValidString(s)
			}
			return fallThrough
		},
		"unicode/utf8.DecodeRuneInString": func(fr *frame, a []value) value {
			if s, ok := goStr(a[0]); ok {
				r, n := utf8.DecodeRuneInString(s)
				return tuple{r, n}
			}
			b := bytesOfStr(a[0])
			if len(b) == 0 {
				return tuple{rune(utf8.RuneError), 0}
			}
			r, n := decodeRune(fr, b)
			return tuple{r, n}
		},
		"unicode/utf8.DecodeRune": func(fr *frame, a []value) value {
			b := a[0].([]value)
			if len(b) == 0 {
				return tuple{rune(utf8.RuneError), 0}
			}
			r, n := decodeRune(fr, b)
			return tuple{r, n}
		},

		// ---- strconv ------------------------------------------------------
		"strconv.FormatFloat": func(fr *frame, a []value) value {
			if allConcrete(a) {
				return strconv.FormatFloat(a[0].(float64), a[1].(byte), a[2].(int), a[3].(int))
			}
			return fr.i.newOpaque("FormatFloat")
		},
		"strconv.ParseFloat": func(fr *frame, a []value) value {
			if allConcrete(a) {
				if f, err := strconv.ParseFloat(a[0].(string), a[1].(int)); err == nil {
					return tuple{f, iface{}}
				}
			}
			return fallThrough
		},
		"strconv.Itoa": func(fr *frame, a []value) value {
			if allConcrete(a) {
				return strconv.Itoa(a[0].(int))
			}
			return fr.i.newOpaque("Itoa")
		},
		"strconv.FormatInt": func(fr *frame, a []value) value {
			if allConcrete(a) {
				return strconv.FormatInt(a[0].(int64), a[1].(int))
			}
			return fr.i.newOpaque("FormatInt")
		},
		"strconv.Quote": func(fr *frame, a []value) value {
			if allConcrete(a) {
				return strconv.Quote(a[0].(string))
			}
			return fr.i.newOpaque("Quote")
		},

		// ---- math ---------------------------------------------------------
		"math.Float64bits": func(fr *frame, a []value) value {
			if s, ok := a[0].(*sym); ok {
				if s.t.op == "(_ to_fp 11 53)" && len(s.t.args) == 1 && s.t.args[0].sort.k == sBV {
					return &sym{s.t.args[0]}
				}
				fr.i.note("math.Float64bits of a symbolic float: the NaN payload is arbitrary (any NaN encoding)")
				bits := fr.i.ts.mk("fp.to_ieee_bv", bvSort(64), s.t)
				if fr.i.path != nil {
					// round-trip axiom: pins NaN to a NaN encoding (SMT-LIB leaves it unspecified)
					back := fr.i.ts.mk("(_ to_fp 11 53)", fp64Sort, bits)
					fr.i.path.addPC(fr.i.ts.mk("=", boolSort, back, s.t))
				}
				return &sym{bits}
			}
			return math.Float64bits(a[0].(float64))
		},
		"math.Float64frombits": func(fr *frame, a []value) value {
			if s, ok := a[0].(*sym); ok {
				if s.t.op == "fp.to_ieee_bv" {
					return &sym{s.t.args[0]}
				}
				return &sym{fr.i.ts.mk("(_ to_fp 11 53)", fp64Sort, s.t)}
			}
			return math.Float64frombits(a[0].(uint64))
		},
		"math.Float32bits": func(fr *frame, a []value) value {
			if s, ok := a[0].(*sym); ok {
				return &sym{fr.i.ts.mk("fp.to_ieee_bv", bvSort(32), s.t)}
			}
			return math.Float32bits(a[0].(float32))
		},
		"math.Float32frombits": func(fr *frame, a []value) value {
			if s, ok := a[0].(*sym); ok {
				return &sym{fr.i.ts.mk("(_ to_fp 8 24)", fp32Sort, s.t)}
			}
			return math.Float32frombits(a[0].(uint32))
		},
		"math.Abs":   mathFn1(math.Abs, "fp.abs"),
		"math.Floor": mathFn1(math.Floor, "fp.roundToIntegral RTN"),
		"math.Ceil":  mathFn1(math.Ceil, "fp.roundToIntegral RTP"),
		"math.Trunc": mathFn1(math.Trunc, "fp.roundToIntegral RTZ"),
		"math.Round": mathFn1(math.Round, "fp.roundToIntegral RNA"),
		"math.Sqrt":  mathFn1(math.Sqrt, "fp.sqrt RNE"),
		"math.Log":   mathFn1(math.Log, "uf_log"),
		"math.Log2":  mathFn1(math.Log2, "uf_log2"),
		"math.Log10": mathFn1(math.Log10, "uf_log10"),
		"math.Exp":   mathFn1(math.Exp, "uf_exp"),
		"math.Sin":   mathFn1(math.Sin, "uf_sin"),
		"math.Cos":   mathFn1(math.Cos, "uf_cos"),
		"math.Tan":   mathFn1(math.Tan, "uf_tan"),
		"math.Mod":   mathFn2(math.Mod, "uf_mod"),
		"math.Pow":   mathFn2(math.Pow, "uf_pow"),
		"math.Max":   mathFn2(math.Max, "uf_max"),
		"math.Min":   mathFn2(math.Min, "uf_min"),
		"math.IsNaN": func(fr *frame, a []value) value {
			if s, ok := a[0].(*sym); ok {
				return boolVal(fr.i.ts.mk("fp.isNaN", boolSort, s.t))
			}
			return math.IsNaN(a[0].(float64))
		},
		"math.IsInf": func(fr *frame, a []value) value {
			if s, ok := a[0].(*sym); ok {
				ts := fr.i.ts
				inf := ts.mk("fp.isInfinite", boolSort, s.t)
				sign := asInt64(a[1])
				switch {
				case sign > 0:
					return boolVal(ts.And(inf, ts.mk("fp.isPositive", boolSort, s.t)))
				case sign < 0:
					return boolVal(ts.And(inf, ts.mk("fp.isNegative", boolSort, s.t)))
				}
				return boolVal(inf)
			}
			return math.IsInf(a[0].(float64), a[1].(int))
		},
		"math.Inf": func(fr *frame, a []value) value { return math.Inf(a[0].(int)) },
		"math.NaN": func(fr *frame, a []value) value { return math.NaN() },

		// ---- os / log --------------------------------------------------------
		"os.Getenv": func(fr *frame, a []value) value {
			if v, ok := fr.i.env[strArg(a[0])]; ok {
				return v
			}
			return ""
		},
		"os.LookupEnv": func(fr *frame, a []value) value {
			if v, ok := fr.i.env[strArg(a[0])]; ok {
				return tuple{v, true}
			}
			return tuple{"", false}
		},
		"os.Exit":             func(fr *frame, a []value) value { panic(pathAbort{"exit", "os.Exit called"}) },
		"(*os.File).Write":       func(fr *frame, a []value) value { return tuple{len(a[1].([]value)), iface{}} },
		"(*os.File).WriteString": func(fr *frame, a []value) value { return tuple{0, iface{}} },
		"(*os.File).Sync":        func(fr *frame, a []value) value { return iface{} },
		"log.Printf":          nop,
		"log.Println":         nop,
		"log.Print":           nop,
		"(*log.Logger).Printf":  nop,
		"(*log.Logger).Println": nop,
		"(*log.Logger).Print":   nop,
		"log.Fatalf":          func(fr *frame, a []value) value { panic(pathAbort{"exit", "log.Fatalf"}) },
		"log.Fatal":           func(fr *frame, a []value) value { panic(pathAbort{"exit", "log.Fatal"}) },
	} {
		externals[name] = f
	}
}


func onceDoneCell(st structure) *value {
	// sync.Once{ _ noCopy; done atomic.Uint32; m Mutex }: find the first
	// nested structure whose last field is a uint32
	for k := range st {
		if inner, ok := st[k].(structure); ok {
			for j := range inner {
				if _, ok := inner[j].(uint32); ok {
					return &inner[j]
				}
			}
		}
		if _, ok := st[k].(uint32); ok {
			return &st[k]
		}
	}
	panic(engineErr{"sync.Once layout not recognised"})
}

func builderBuf(recv value) []value {
	p := recv.(*value)
	st := (*p).(structure)
	// strings.Builder{addr *Builder; buf []byte}
	b, _ := st[1].([]value)
	return b
}

func builderSet(fr *frame, recv value, b []value) {
	p := recv.(*value)
	st := (*p).(structure)
	fr.i.setCell(&st[1], b)
}

func strFast1(f func(string) string) externalFn {
	return func(fr *frame, a []value) value {
		if s, ok := goStr(a[0]); ok {
			return f(s)
		}
		return fallThrough
	}
}

func strFast2b(f func(string, string) bool) externalFn {
	return func(fr *frame, a []value) value {
		if s, ok := goStr(a[0]); ok {
			if t, ok := goStr(a[1]); ok {
				return f(s, t)
			}
		}
		return fallThrough
	}
}

func strFast2s(f func(string, string) string) externalFn {
	return func(fr *frame, a []value) value {
		if s, ok := goStr(a[0]); ok {
			if t, ok := goStr(a[1]); ok {
				return f(s, t)
			}
		}
		return fallThrough
	}
}

func mathFn1(f func(float64) float64, op string) externalFn {
	return func(fr *frame, a []value) value {
		if s, ok := a[0].(*sym); ok {
			return &sym{fr.i.ts.mk(op, fp64Sort, s.t)}
		}
		return f(a[0].(float64))
	}
}

func mathFn2(f func(float64, float64) float64, op string) externalFn {
	return func(fr *frame, a []value) value {
		if isSym(a[0]) || isSym(a[1]) {
			return &sym{fr.i.ts.mk(op, fp64Sort, fr.i.termOf(a[0]), fr.i.termOf(a[1]))}
		}
		return f(a[0].(float64), a[1].(float64))
	}
}

// ---- byte-sequence helpers aware of symbolic bytes --------------------------

func indexByte(fr *frame, b []value, c value) value {
	i := fr.i
	ct := byteTerm(i, c)
	for k, x := range b {
		if fr.cond(boolVal(i.ts.Eq(byteTerm(i, x), ct))) {
			return k
		}
	}
	return -1
}

func lastIndexByte(fr *frame, b []value, c value) value {
	i := fr.i
	ct := byteTerm(i, c)
	for k := len(b) - 1; k >= 0; k-- {
		if fr.cond(boolVal(i.ts.Eq(byteTerm(i, b[k]), ct))) {
			return k
		}
	}
	return -1
}

func countByte(fr *frame, b []value, c value) value {
	i := fr.i
	ct := byteTerm(i, c)
	n := 0
	for _, x := range b {
		if fr.cond(boolVal(i.ts.Eq(byteTerm(i, x), ct))) {
			n++
		}
	}
	return n
}

func bytesEqTerm(i *interpreter, a, b []value) *Term {
	ts := i.ts
	if len(a) != len(b) {
		return ts.tFalse
	}
	c := ts.tTrue
	for k := range a {
		c = ts.And(c, ts.Eq(byteTerm(i, a[k]), byteTerm(i, b[k])))
	}
	return c
}

func bytesEq(fr *frame, a, b []value) value {
	return boolVal(bytesEqTerm(fr.i, a, b))
}

func bytesCompare(fr *frame, a, b []value) value {
	i := fr.i
	ts := i.ts
	n := len(a)
	if len(b) < n {
		n = len(b)
	}
	for k := 0; k < n; k++ {
		x, y := byteTerm(i, a[k]), byteTerm(i, b[k])
		if fr.cond(boolVal(ts.Eq(x, y))) {
			continue
		}
		if fr.cond(boolVal(ts.bvCmp("bvult", x, y))) {
			return -1
		}
		return 1
	}
	switch {
	case len(a) < len(b):
		return -1
	case len(a) > len(b):
		return 1
	}
	return 0
}

func indexSub(fr *frame, s, sub []value) value {
	if len(sub) == 0 {
		return 0
	}
	for k := 0; k+len(sub) <= len(s); k++ {
		if fr.cond(bytesEq(fr, s[k:k+len(sub)], sub)) {
			return k
		}
	}
	return -1
}

// ---- atomics ------------------------------------------------------------------

func (i *interpreter) atomicSync(fr *frame, p *value, write bool) {
	// atomics are synchronisation: acquire+release on a per-cell clock
	tab, _ := i.side["atomvc"].(map[*value]*vclock)
	if tab == nil {
		tab = map[*value]*vclock{}
		i.side["atomvc"] = tab
	}
	vc := tab[p]
	if vc == nil {
		vc = new(vclock)
		tab[p] = vc
	}
	i.sched.acquire(fr, vc)
	if write {
		i.sched.release(fr, vc)
	}
	i.sched.point(fr, "atomic")
}

func atomicLoad(fr *frame, a []value) value {
	p := a[0].(*value)
	fr.i.atomicSync(fr, p, false)
	return *p
}

func atomicStore(fr *frame, a []value) value {
	p := a[0].(*value)
	fr.i.atomicSync(fr, p, true)
	fr.i.setCell(p, a[1])
	return nil
}

func atomicAdd(fr *frame, a []value) value {
	p := a[0].(*value)
	fr.i.atomicSync(fr, p, true)
	t := fr.fn.Signature.Params().At(1).Type()
	nv := binop(fr, token.ADD, t, *p, a[1])
	fr.i.setCell(p, nv)
	return nv
}

func atomicSwap(fr *frame, a []value) value {
	p := a[0].(*value)
	fr.i.atomicSync(fr, p, true)
	old := *p
	fr.i.setCell(p, a[1])
	return old
}

func atomicCAS(fr *frame, a []value) value {
	p := a[0].(*value)
	fr.i.atomicSync(fr, p, true)
	t := fr.fn.Signature.Params().At(1).Type()
	if fr.cond(eqValue(fr, t, *p, a[1])) {
		fr.i.setCell(p, a[2])
		return true
	}
	return false
}

var _ = fmt.Sprintf
var _ = types.Typ

func init() {
	externals["internal/reflectlite.TypeOf"] = ext۰reflect۰TypeOf
	externals["internal/reflectlite.ValueOf"] = ext۰reflect۰ValueOf
}

// ---- encoding/binary as concat/extract ---------------------------------------

func leLoad(fr *frame, b []value, n int) value {
	if len(b) < n {
		panic(runtimeErr{fmt.Sprintf("index out of range [%d] with length %d", n-1, len(b))})
	}
	conc := true
	for k := 0; k < n; k++ {
		if _, ok := b[k].(uint8); !ok {
			conc = false
		}
	}
	if conc {
		var v uint64
		for k := n - 1; k >= 0; k-- {
			v = v<<8 | uint64(b[k].(uint8))
		}
		switch n {
		case 2:
			return uint16(v)
		case 4:
			return uint32(v)
		}
		return v
	}
	i := fr.i
	acc := byteTerm(i, b[n-1])
	for k := n - 2; k >= 0; k-- {
		acc = i.ts.Concat(acc, byteTerm(i, b[k]))
	}
	return &sym{acc}
}

func leStore(fr *frame, b []value, v value, n int) {
	if len(b) < n {
		panic(runtimeErr{fmt.Sprintf("index out of range [%d] with length %d", n-1, len(b))})
	}
	i := fr.i
	if s, ok := v.(*sym); ok {
		for k := 0; k < n; k++ {
			i.setCell(&b[k], mkSym(i.ts.Extract(s.t, 8*k+7, 8*k), types.Uint8))
		}
		return
	}
	u := asUint64(v)
	for k := 0; k < n; k++ {
		i.setCell(&b[k], uint8(u>>(8*uint(k))))
	}
}

func init() {
	for _, e := range []struct {
		name string
		n    int
	}{{"Uint16", 2}, {"Uint32", 4}, {"Uint64", 8}} {
		n := e.n
		externals["(encoding/binary.littleEndian)."+e.name] = func(fr *frame, a []value) value {
			return leLoad(fr, a[1].([]value), n)
		}
		externals["(encoding/binary.littleEndian).Put"+e.name] = func(fr *frame, a []value) value {
			leStore(fr, a[1].([]value), a[2], n)
			return nil
		}
	}
}

func (i *interpreter) freshRand(fr *frame, name string, so Sort) *Term {
	if i.path == nil {
		return i.ts.BV(4, so.w)
	}
	k := len(i.path.inputs)
	t := i.ts.Var(fmt.Sprintf("rnd%d_%s", k, name), so)
	i.path.inputs = append(i.path.inputs, inputRec{name: name, kind: "clock-internal", term: t})
	return t
}

func init() {
	bounded := func(fr *frame, n value, w int, name string) value {
		i := fr.i
		t := i.freshRand(fr, name, bvSort(w))
		if i.path != nil {
			i.path.addPC(i.ts.bvCmp("bvslt", t, i.termOf(n)))
			i.path.addPC(i.ts.bvCmp("bvsle", i.ts.BV(0, w), t))
		}
		return &sym{t}
	}
	posCheck := func(fr *frame, n value, what string) {
		if fr.cond(symBinopLE(fr, n)) {
			stringPanic(fr, "invalid argument to "+what)
		}
	}
	externals["math/rand.Int63n"] = func(fr *frame, a []value) value { posCheck(fr, a[0], "Int63n"); return bounded(fr, a[0], 64, "rand.Int63n") }
	externals["math/rand.Intn"] = func(fr *frame, a []value) value { posCheck(fr, a[0], "Intn"); return bounded(fr, a[0], 64, "rand.Intn") }
	externals["math/rand.Int63"] = func(fr *frame, a []value) value {
		return &sym{fr.i.ts.bvBin("bvlshr", fr.i.freshRand(fr, "rand.Int63", bvSort(64)), fr.i.ts.BV(1, 64))}
	}
	externals["math/rand.Int"] = externals["math/rand.Int63"]
	externals["math/rand.Seed"] = nop
	externals["github.com/google/uuid.NewString"] = func(fr *frame, a []value) value { return fr.i.newOpaque("uuid") }
	externals["github.com/google/uuid.New"] = func(fr *frame, a []value) value {
		arr := make(array, 16)
		for k := range arr {
			arr[k] = uint8(k + 1)
		}
		return arr
	}
	externals["(github.com/google/uuid.UUID).String"] = func(fr *frame, a []value) value { return fr.i.newOpaque("uuid") }
	externals["internal/godebug.New"] = func(fr *frame, a []value) value {
		t := fr.i.namedType("internal/godebug", "Setting")
		var cell value = zero(t)
		return &cell
	}
	externals["(*internal/godebug.Setting).Value"] = func(fr *frame, a []value) value { return "" }
	externals["(*internal/godebug.Setting).IncNonDefault"] = nop
	externals["(*internal/godebug.Setting).Name"] = func(fr *frame, a []value) value { return "" }
}

// symBinopLE: n <= 0 for an int-typed value
func symBinopLE(fr *frame, n value) value {
	if s, ok := n.(*sym); ok {
		return boolVal(fr.i.ts.bvCmp("bvsle", s.t, fr.i.ts.BV(0, s.t.sort.w)))
	}
	return asInt64(n) <= 0
}

// opaqueMark inside a strings.Builder buffer: an opaque string was written.
type opaqueMark struct{}
