package main

// Path exploration by re-execution with a decision prefix.

import (
	"fmt"
	"os"
	"sort"
	"strings"
)

type dkind uint8

const (
	dBranch dkind = iota // val: 1 taken true, 0 false
	dChoice              // val: chosen index
	dConcEq              // val: value chosen (term == val)
	dConcNe              // val: value excluded (term != val)
)

type decision struct {
	k   dkind
	val uint64
}

// inputRec is one value handed to the harness by zzverif.* (in call order);
// this sequence is the native replay vector.
type inputRec struct {
	name string
	kind string // "i64","u8","bool","f64","choice", ...
	term *Term  // nil for choices
	val  uint64 // for choices / concrete
}

type pathCtx struct {
	prefix  []decision
	pos     int
	taken   []decision
	pc      []*Term
	inputs  []inputRec
	notes   []string
	reached map[string]bool
	newAlts [][]decision
	nsym    int // symbolic decisions on this path
	unknown int
	asserts int
	obligation string
	observations []string
	lits map[*Term]bool // literals already on the path condition
}

func (c *pathCtx) addPC(t *Term) {
	c.pc = append(c.pc, t)
	if c.lits == nil {
		c.lits = map[*Term]bool{}
	}
	c.lits[t] = true
}

// violation found on a path
type Violation struct {
	Harness  string   `json:"harness"`
	Key      string   `json:"key"`
	Msg      string   `json:"msg"`
	Kind     string   `json:"kind"` // assert, panic, alloc, hang, deadlock, race, fatal
	Vector   []VecEnt `json:"vector"`
	Where    string   `json:"where"`
	Confirmed string  `json:"confirmed,omitempty"`
	Expect   string   `json:"expect"` // outcome string predicted for native replay
}

type VecEnt struct {
	Name string `json:"name"`
	Kind string `json:"kind"`
	Val  uint64 `json:"val"`
}

func (i *interpreter) note(s string) {
	if i.path == nil {
		return
	}
	for _, n := range i.path.notes {
		if n == s {
			return
		}
	}
	i.path.notes = append(i.path.notes, s)
}

func (c *pathCtx) nextPrefix() (decision, bool) {
	if c.pos < len(c.prefix) {
		d := c.prefix[c.pos]
		c.pos++
		return d, true
	}
	return decision{}, false
}

func (c *pathCtx) alt(d decision) {
	a := make([]decision, len(c.taken)+1)
	copy(a, c.taken)
	a[len(c.taken)] = d
	c.newAlts = append(c.newAlts, a)
}

// check runs the solver on pc plus extra literals.
func (i *interpreter) check(extra ...*Term) satResult {
	lits := make([]*Term, 0, len(i.path.pc)+len(extra))
	lits = append(lits, i.path.pc...)
	lits = append(lits, extra...)
	return i.solver.Check(lits)
}

// branch decides a symbolic condition.
func (i *interpreter) branch(cond *Term, fr *frame) bool {
	if cond.isC {
		return cond.cu != 0
	}
	c := i.path
	if c == nil {
		panic(engineErr{"symbolic branch outside a path (package init?)"})
	}
	ts := i.ts
	if c.lits[cond] {
		return true
	}
	if c.lits[ts.Not(cond)] {
		return false
	}
	if d, ok := c.nextPrefix(); ok {
		if d.k != dBranch {
			panic(engineErr{fmt.Sprintf("non-deterministic re-execution: expected branch, prefix has kind %d", d.k)})
		}
		c.taken = append(c.taken, d)
		c.nsym++
		if d.val != 0 {
			c.addPC(cond)
			return true
		}
		c.addPC(ts.Not(cond))
		return false
	}
	c.nsym++
	if c.nsym > i.cfg.MaxDepth {
		panic(pathAbort{"depthlimit", fmt.Sprintf("more than %d symbolic decisions on one path", i.cfg.MaxDepth)})
	}
	rt := i.check(cond)
	var rf satResult
	if rt == rUnsat {
		rf = rSat
	} else {
		rf = i.check(ts.Not(cond))
	}
	if rt == rUnknown || rf == rUnknown {
		c.unknown++
		i.results.addInconclusive(i.cfg.Name, "solver unknown on a branch in "+originOf(fr)+": "+cond.render(4))
	}
	tOK, fOK := rt != rUnsat, rf != rUnsat
	switch {
	case tOK && fOK:
		c.alt(decision{dBranch, 0})
		c.taken = append(c.taken, decision{dBranch, 1})
		c.addPC(cond)
		return true
	case tOK:
		c.taken = append(c.taken, decision{dBranch, 1})
		c.addPC(cond)
		return true
	case fOK:
		c.taken = append(c.taken, decision{dBranch, 0})
		c.addPC(ts.Not(cond))
		return false
	}
	panic(pathAbort{"assume", "path condition became unsatisfiable"})
}

// choice forks n ways without consulting the solver.
func (i *interpreter) choice(n int, name string) int {
	c := i.path
	if c == nil {
		panic(engineErr{"choice outside a path"})
	}
	if n <= 1 {
		return 0
	}
	if d, ok := c.nextPrefix(); ok {
		if d.k != dChoice {
			panic(engineErr{"non-deterministic re-execution: expected choice (" + name + ")"})
		}
		c.taken = append(c.taken, d)
		return int(d.val)
	}
	for k := n - 1; k >= 1; k-- {
		c.alt(decision{dChoice, uint64(k)})
	}
	c.taken = append(c.taken, decision{dChoice, 0})
	return 0
}

// concretizeTerm enumerates feasible values of t.
func (i *interpreter) concretizeTerm(t *Term, what string, fr *frame) uint64 {
	if t.isC {
		return t.cu
	}
	c := i.path
	if c == nil {
		panic(engineErr{"concretize outside a path"})
	}
	ts := i.ts
	mkc := func(v uint64) *Term {
		if t.sort.k == sBool {
			return ts.Bool(v != 0)
		}
		return ts.BV(v, t.sort.w)
	}
	if d, ok := c.nextPrefix(); ok {
		if d.k != dConcEq {
			panic(engineErr{"non-deterministic re-execution: expected concretization"})
		}
		c.taken = append(c.taken, d)
		c.addPC(ts.Eq(t, mkc(d.val)))
		return d.val
	}
	// enumerate every feasible value now; the others become alternatives
	var vals []uint64
	var excl []*Term
	for {
		r := i.check(excl...)
		if r == rUnknown {
			panic(engineErr{"solver unknown during concretization of " + what})
		}
		if r == rUnsat {
			break
		}
		v := i.solver.Values([]*Term{t})[0]
		vals = append(vals, v)
		excl = append(excl, ts.Not(ts.Eq(t, mkc(v))))
		if len(vals) > i.cfg.MaxConcretize {
			panic(engineErr{fmt.Sprintf("UNSUPPORTED concretization of %s in %s has more than %d values", what, originOf(fr), i.cfg.MaxConcretize)})
		}
	}
	if len(vals) == 0 {
		panic(pathAbort{"assume", "infeasible"})
	}
	sort.Slice(vals, func(a, b int) bool { return vals[a] < vals[b] })
	for k := len(vals) - 1; k >= 1; k-- {
		c.alt(decision{dConcEq, vals[k]})
	}
	if os.Getenv("VERIF_VERBOSE") != "" {
		i.results.mu.Lock()
		i.results.stubs["CONCRETIZE "+what+" @ "+originOf(fr)] += len(vals)
		i.results.mu.Unlock()
	}
	c.taken = append(c.taken, decision{dConcEq, vals[0]})
	c.addPC(ts.Eq(t, mkc(vals[0])))
	c.nsym++
	return vals[0]
}

// ---------------------------------------------------------------------
// violations

func (i *interpreter) vector() []VecEnt {
	c := i.path
	var terms []*Term
	for _, in := range c.inputs {
		if in.term != nil {
			terms = append(terms, in.term)
		}
	}
	var vals []uint64
	if len(terms) > 0 {
		vals = i.solver.Values(terms)
	}
	out := make([]VecEnt, 0, len(c.inputs))
	k := 0
	for _, in := range c.inputs {
		e := VecEnt{Name: in.name, Kind: in.kind, Val: in.val}
		if in.term != nil {
			e.Val = vals[k]
			k++
		}
		out = append(out, e)
	}
	return out
}

// violationWith records a violation under the extra literals (which must be
// satisfiable together with the path condition; checked here).
func (i *interpreter) violationWith(fr *frame, kind, key, msg string, extra ...*Term) bool {
	c := i.path
	if c == nil {
		panic(engineErr{"violation outside a path: " + msg})
	}
	r := i.check(extra...)
	if r == rUnsat {
		return false
	}
	if r == rUnknown {
		i.results.addInconclusive(i.cfg.Name, "solver unknown while confirming "+key)
		return false
	}
	v := Violation{Harness: i.cfg.Name, Key: key, Msg: msg, Kind: kind, Vector: i.vector()}
	if fr != nil && fr.fn != nil {
		v.Where = fr.fn.String()
	}
	switch kind {
	case "assert":
		v.Expect = "assert:" + key
	case "panic", "fatal", "race", "deadlock":
		v.Expect = kind
	case "alloc":
		v.Expect = "alloc"
	case "hang":
		v.Expect = "hang"
	}
	i.results.addViolation(v)
	return true
}

func (i *interpreter) violationHere(fr *frame, key, msg string) {
	kind := key
	if k := strings.IndexByte(key, ':'); k >= 0 {
		kind = key[:k]
	}
	where := ""
	for f := fr; f != nil; f = f.caller {
		if f.fn != nil && f.fn.Pkg != nil && strings.HasPrefix(f.fn.Pkg.Pkg.Path(), "github.com/glyphlang/glyph") {
			where = f.fn.String()
			break
		}
	}
	if kind == "alloc" || kind == "fatal" {
		key = kind + ":" + where
	}
	i.violationWith(fr, kind, key, msg)
}

// sortedKeys helper
func sortedKeys[M ~map[string]V, V any](m M) []string {
	ks := make([]string, 0, len(m))
	for k := range m {
		ks = append(ks, k)
	}
	sort.Strings(ks)
	return ks
}
