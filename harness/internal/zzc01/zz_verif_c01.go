// Package zzc01 holds the C01 harnesses: the interpreter's results against a
// reference written from docs/LANGUAGE_SPECIFICATION.md (sections 2.1, 3.4, 4,
// 5, 10). Where the documents are silent the reference says "unspecified" and
// only a GlyphLang-level outcome (value or error, no crash) is required.
package zzc01

import (
	"strings"

	"github.com/glyphlang/glyph/internal/zzverif"
	"github.com/glyphlang/glyph/pkg/ast"
	"github.com/glyphlang/glyph/pkg/interpreter"
	"github.com/glyphlang/glyph/pkg/parser"
)

func lit(v interface{}) ast.Expr {
	switch x := v.(type) {
	case int64:
		return ast.LiteralExpr{Value: ast.IntLiteral{Value: x}}
	case float64:
		return ast.LiteralExpr{Value: ast.FloatLiteral{Value: x}}
	case bool:
		return ast.LiteralExpr{Value: ast.BoolLiteral{Value: x}}
	case string:
		return ast.LiteralExpr{Value: ast.StringLiteral{Value: x}}
	}
	return ast.LiteralExpr{Value: ast.NullLiteral{}}
}

func v(n string) ast.Expr { return ast.VariableExpr{Name: n} }
func bin(op ast.BinOp, l, r ast.Expr) ast.Expr {
	return ast.BinaryOpExpr{Op: op, Left: l, Right: r}
}
func let(n string, e ast.Expr) ast.Statement   { return ast.AssignStatement{Target: n, Value: e} }
func set(n string, e ast.Expr) ast.Statement   { return ast.ReassignStatement{Target: n, Value: e} }
func ret(e ast.Expr) ast.Statement             { return ast.ReturnStatement{Value: e} }

// run executes a route body with the real interpreter.
func run(body ...ast.Statement) (interface{}, bool) {
	in := interpreter.NewInterpreter()
	resp, err := in.ExecuteRoute(&ast.Route{Path: "/t", Method: ast.Get, Body: body}, &interpreter.Request{Path: "/t", Method: "GET"})
	if err != nil {
		return nil, false
	}
	return resp.Body, true
}

// ---------------------------------------------------------------------------
// O1: operators on numbers, booleans and strings (spec 2.1, 4.2, 4.3)

var opNames = []string{"+", "-", "*", "/", "==", "!=", "<", "<=", ">", ">=", "&&", "||", "%"}

// int op int: 64-bit integers (2.1), arithmetic wraps, comparisons are the
// mathematical order, / and % by zero are errors
func VerifC01_IntInt() {
	op := ast.BinOp(zzverif.Choice("op", 10))
	a, b := zzverif.Int64("a"), zzverif.Int64("b")
	got, ok := run(ret(bin(op, lit(a), lit(b))))
	name := "int " + opNames[op] + " int"
	switch op {
	case ast.Add:
		zzverif.Assert(ok && got == interface{}(a+b), name)
	case ast.Sub:
		zzverif.Assert(ok && got == interface{}(a-b), name)
	case ast.Mul:
		zzverif.Assert(ok && got == interface{}(a*b), name)
	case ast.Div:
		if b == 0 {
			zzverif.Assert(!ok, name+" by zero is an error")
		} else if !(a == -9223372036854775808 && b == -1) {
			zzverif.Assert(ok && got == interface{}(a/b), name)
		}
	case ast.Eq:
		zzverif.Assert(ok && got == interface{}(a == b), name)
	case ast.Ne:
		zzverif.Assert(ok && got == interface{}(a != b), name)
	case ast.Lt:
		zzverif.Assert(ok && got == interface{}(a < b), name)
	case ast.Le:
		zzverif.Assert(ok && got == interface{}(a <= b), name)
	case ast.Gt:
		zzverif.Assert(ok && got == interface{}(a > b), name)
	case ast.Ge:
		zzverif.Assert(ok && got == interface{}(a >= b), name)
	}
	zzverif.Reach("intint")
}

func eqF(got interface{}, want float64) bool {
	g, ok := got.(float64)
	return ok && (g == want || (g != g && want != want))
}

// mixed int/float: the int operand is promoted to float (typechecker.CoerceNumeric)
func VerifC01_IntFloat() {
	op := ast.BinOp(zzverif.Choice("op", 10))
	a, f := zzverif.Int64("a"), zzverif.Float64("f")
	zzverif.Assume(f == f) // not NaN: NaN comparisons are left to the float harness
	intLeft := zzverif.Bool("intLeft")
	var e ast.Expr
	x, y := float64(a), f
	if intLeft {
		e = bin(op, lit(a), lit(f))
	} else {
		e = bin(op, lit(f), lit(a))
		x, y = f, float64(a)
	}
	got, ok := run(ret(e))
	name := "int/float " + opNames[op]
	switch op {
	case ast.Add:
		zzverif.Assert(ok && eqF(got, x+y), name)
	case ast.Sub:
		zzverif.Assert(ok && eqF(got, x-y), name)
	case ast.Mul:
		zzverif.Assert(ok && eqF(got, x*y), name)
	case ast.Div:
		if y == 0 {
			zzverif.Assert(!ok, name+" by zero is an error")
		} else {
			zzverif.Assert(ok && eqF(got, x/y), name)
		}
	case ast.Eq:
		zzverif.Assert(ok && got == interface{}(x == y), name)
	case ast.Ne:
		zzverif.Assert(ok && got == interface{}(x != y), name)
	case ast.Lt:
		zzverif.Assert(ok && got == interface{}(x < y), name)
	case ast.Le:
		zzverif.Assert(ok && got == interface{}(x <= y), name)
	case ast.Gt:
		zzverif.Assert(ok && got == interface{}(x > y), name)
	case ast.Ge:
		zzverif.Assert(ok && got == interface{}(x >= y), name)
	}
	zzverif.Reach("intfloat")
}

// booleans: && and || short-circuit (the right operand is not evaluated when the
// left decides), ! negates
func VerifC01_Logic() {
	a, b := zzverif.Bool("a"), zzverif.Bool("b")
	and, okA := run(ret(bin(ast.And, lit(a), lit(b))))
	or, okO := run(ret(bin(ast.Or, lit(a), lit(b))))
	not, okN := run(ret(ast.UnaryOpExpr{Op: ast.Not, Right: lit(a)}))
	zzverif.Assert(okA && and == interface{}(a && b), "bool && bool")
	zzverif.Assert(okO && or == interface{}(a || b), "bool || bool")
	zzverif.Assert(okN && not == interface{}(!a), "! bool")
	// short circuit: the right operand would fail (1/0) but must not be evaluated
	boom := bin(ast.Eq, bin(ast.Div, lit(int64(1)), lit(int64(0))), lit(int64(1)))
	sa, okSA := run(ret(bin(ast.And, lit(a), boom)))
	so, okSO := run(ret(bin(ast.Or, lit(a), boom)))
	if a {
		zzverif.Assert(!okSA, "true && <error> evaluates the right operand")
		zzverif.Assert(okSO && so == interface{}(true), "true || x short-circuits")
	} else {
		zzverif.Assert(okSA && sa == interface{}(false), "false && x short-circuits")
		zzverif.Assert(!okSO, "false || <error> evaluates the right operand")
	}
	zzverif.Reach("logic")
}

// strings: + concatenates, == / != compare contents; unary minus on numbers
func VerifC01_StringsAndNeg() {
	s, t := zzverif.StringFrom("s", 2, "ab "), zzverif.StringFrom("t", 2, "ab ")
	cat, ok1 := run(ret(bin(ast.Add, lit(s), lit(t))))
	eq, ok2 := run(ret(bin(ast.Eq, lit(s), lit(t))))
	ne, ok3 := run(ret(bin(ast.Ne, lit(s), lit(t))))
	zzverif.Assert(ok1 && cat == interface{}(s+t), "str + str")
	zzverif.Assert(ok2 && eq == interface{}(s == t), "str == str")
	zzverif.Assert(ok3 && ne == interface{}(s != t), "str != str")
	a := zzverif.Int64("a")
	neg, ok4 := run(ret(ast.UnaryOpExpr{Op: ast.Neg, Right: lit(a)}))
	zzverif.Assert(ok4 && neg == interface{}(-a), "- int")
	f := zzverif.Float64("f")
	zzverif.Assume(f == f)
	negf, ok5 := run(ret(ast.UnaryOpExpr{Op: ast.Neg, Right: lit(f)}))
	zzverif.Assert(ok5 && negf == interface{}(-f), "- float")
	zzverif.Reach("str")
}

// ---------------------------------------------------------------------------
// O2: precedence and associativity (spec 4.2 table: || 2, && 3, comparisons 5,
// + - 10, * / 20; binary operators associate to the left), through the real
// lexer and parser: "a OP1 b OP2 c" must group by the table.

var precOps = []string{"||", "&&", "==", "!=", "<", "<=", ">", ">=", "+", "-", "*", "/"}
var precOf = []int{2, 3, 5, 5, 5, 5, 5, 5, 10, 10, 20, 20}
var precAst = []ast.BinOp{ast.Or, ast.And, ast.Eq, ast.Ne, ast.Lt, ast.Le, ast.Gt, ast.Ge, ast.Add, ast.Sub, ast.Mul, ast.Div}

func parseExprOf(src string) (ast.Expr, bool) {
	toks, err := parser.NewLexer("@ GET /t {\n  $ r = " + src + "\n  > r\n}\n").Tokenize()
	if err != nil {
		return nil, false
	}
	m, err := parser.NewParser(toks).Parse()
	if err != nil || len(m.Items) != 1 {
		return nil, false
	}
	r, ok := m.Items[0].(*ast.Route)
	if !ok || len(r.Body) < 1 {
		return nil, false
	}
	switch s := r.Body[0].(type) {
	case ast.AssignStatement:
		return s.Value, true
	case *ast.AssignStatement:
		return s.Value, true
	}
	return nil, false
}

func asBin(e ast.Expr) (ast.BinaryOpExpr, bool) {
	switch b := e.(type) {
	case ast.BinaryOpExpr:
		return b, true
	case *ast.BinaryOpExpr:
		return *b, true
	}
	return ast.BinaryOpExpr{}, false
}

func isVar(e ast.Expr, n string) bool {
	switch x := e.(type) {
	case ast.VariableExpr:
		return x.Name == n
	case *ast.VariableExpr:
		return x.Name == n
	}
	return false
}

func VerifC01_Precedence() {
	i, j := zzverif.Choice("op1", len(precOps)), zzverif.Choice("op2", len(precOps))
	src := "a " + precOps[i] + " b " + precOps[j] + " c"
	e, ok := parseExprOf(src)
	zzverif.Assert(ok, "precedence: a "+precOps[i]+" b "+precOps[j]+" c does not parse")
	top, ok := asBin(e)
	zzverif.Assert(ok, "precedence: not a binary expression")
	name := "precedence: a " + precOps[i] + " b " + precOps[j] + " c groups against the documented table"
	if precOf[j] > precOf[i] {
		// a OP1 (b OP2 c)
		r, okr := asBin(top.Right)
		zzverif.Assert(top.Op == precAst[i] && isVar(top.Left, "a") && okr && r.Op == precAst[j] && isVar(r.Left, "b") && isVar(r.Right, "c"), name)
	} else {
		// (a OP1 b) OP2 c   (higher or equal precedence on the left: left-associative)
		l, okl := asBin(top.Left)
		zzverif.Assert(top.Op == precAst[j] && isVar(top.Right, "c") && okl && l.Op == precAst[i] && isVar(l.Left, "a") && isVar(l.Right, "b"), name)
	}
	zzverif.Reach("prec")
}

// unary operators bind tighter than every binary operator (4.8)
func VerifC01_UnaryPrecedence() {
	j := zzverif.Choice("op", len(precOps))
	e, ok := parseExprOf("-a " + precOps[j] + " b")
	zzverif.Assert(ok, "unary precedence: does not parse")
	top, ok := asBin(e)
	zzverif.Assert(ok && top.Op == precAst[j] && isVar(top.Right, "b"), "unary precedence: -a "+precOps[j]+" b does not apply the minus to a only")
	zzverif.Reach("unary")
}

// ---------------------------------------------------------------------------
// O3: scoping and control flow, each template with its closed-form result

// block scoping (3.4 / 5): a $ inside a block on a name visible outside updates
// the outer variable; a new name declared inside is not visible after the block
func VerifC01_BlockScope() {
	a, b := zzverif.Int64("a"), zzverif.Int64("b")
	c := zzverif.Bool("c")
	got, ok := run(
		let("x", lit(a)),
		ast.IfStatement{Condition: lit(c), ThenBlock: []ast.Statement{let("x", lit(b)), let("y", lit(int64(1)))}},
		ret(v("x")),
	)
	want := a
	if c {
		want = b
	}
	zzverif.Assert(ok && got == interface{}(want), "block scope: $ on an outer name inside a block did not update it (or leaked)")
	_, ok2 := run(
		ast.IfStatement{Condition: lit(true), ThenBlock: []ast.Statement{let("y", lit(a))}},
		ret(v("y")),
	)
	zzverif.Assert(!ok2, "block scope: a variable declared inside a block is visible after it")
	zzverif.Reach("scope")
}

// while with break / continue: sum of i for i in 1..n skipping i==skip, stopping at i==stop
func VerifC01_WhileBreakContinue() {
	n := int64(zzverif.IntRange("n", 0, 4))
	skip := int64(zzverif.IntRange("skip", 0, 5))
	stop := int64(zzverif.IntRange("stop", 0, 5))
	got, ok := run(
		let("i", lit(int64(0))),
		let("s", lit(int64(0))),
		ast.WhileStatement{Condition: bin(ast.Lt, v("i"), lit(n)), Body: []ast.Statement{
			set("i", bin(ast.Add, v("i"), lit(int64(1)))),
			ast.IfStatement{Condition: bin(ast.Eq, v("i"), lit(stop)), ThenBlock: []ast.Statement{ast.BreakStatement{}}},
			ast.IfStatement{Condition: bin(ast.Eq, v("i"), lit(skip)), ThenBlock: []ast.Statement{ast.ContinueStatement{}}},
			set("s", bin(ast.Add, v("s"), v("i"))),
		}},
		ret(bin(ast.Add, bin(ast.Mul, v("s"), lit(int64(10))), v("i"))),
	)
	var i, s int64
	for i < n {
		i++
		if i == stop {
			break
		}
		if i == skip {
			continue
		}
		s += i
	}
	zzverif.Assert(ok && got == interface{}(s*10+i), "while/break/continue executes other statements than specified")
	zzverif.Reach("while")
}

// for over an array with index, early return from inside the loop
func VerifC01_ForReturn() {
	a, b, c := zzverif.Int64("a"), zzverif.Int64("b"), zzverif.Int64("c")
	t := zzverif.Int64("t")
	got, ok := run(
		let("s", lit(int64(0))),
		ast.ForStatement{KeyVar: "k", ValueVar: "e", Iterable: ast.ArrayExpr{Elements: []ast.Expr{lit(a), lit(b), lit(c)}}, Body: []ast.Statement{
			ast.IfStatement{Condition: bin(ast.Eq, v("e"), lit(t)), ThenBlock: []ast.Statement{ret(bin(ast.Sub, lit(int64(0)), v("k")))}},
			set("s", bin(ast.Add, v("s"), v("e"))),
		}},
		ret(v("s")),
	)
	var want int64
	switch {
	case a == t:
		want = 0
	case b == t:
		want = -1
	case c == t:
		want = -2
	default:
		want = a + b + c
	}
	zzverif.Assert(ok && got == interface{}(want), "for/return executes other statements than specified")
	zzverif.Reach("for")
}

// if / else if / else chains
func VerifC01_IfElse() {
	x := zzverif.Int64("x")
	got, ok := run(
		ast.IfStatement{Condition: bin(ast.Lt, lit(x), lit(int64(0))),
			ThenBlock: []ast.Statement{ret(lit(int64(-1)))},
			ElseBlock: []ast.Statement{ast.IfStatement{Condition: bin(ast.Eq, lit(x), lit(int64(0))),
				ThenBlock: []ast.Statement{ret(lit(int64(0)))},
				ElseBlock: []ast.Statement{ret(lit(int64(1)))}}}},
		ret(lit(int64(9))),
	)
	want := int64(1)
	if x < 0 {
		want = -1
	} else if x == 0 {
		want = 0
	}
	zzverif.Assert(ok && got == interface{}(want), "if/else chain takes the wrong branch")
	zzverif.Reach("if")
}

// user function with recursion: sum 1..n
func VerifC01_FunctionCall() {
	n := int64(zzverif.IntRange("n", 0, 4))
	src := "! sum(n: int): int {\n  if n <= 0 {\n    > 0\n  }\n  > n + sum(n - 1)\n}\n\n@ GET /t {\n  $ k = " + string(rune('0'+n)) + "\n  > sum(k) * 2\n}\n"
	toks, err := parser.NewLexer(src).Tokenize()
	zzverif.Assert(err == nil, "function program does not lex")
	m, err := parser.NewParser(toks).Parse()
	zzverif.Assert(err == nil, "function program does not parse")
	in := interpreter.NewInterpreter()
	zzverif.Assert(in.LoadModule(*m) == nil, "function program does not load")
	var r *ast.Route
	for _, it := range m.Items {
		if x, ok := it.(*ast.Route); ok {
			r = x
		}
	}
	resp, err := in.ExecuteRoute(r, &interpreter.Request{Path: "/t", Method: "GET"})
	zzverif.Assert(err == nil && resp.Body == interface{}(n*(n+1)), "user function call / recursion computes the wrong value")
	zzverif.Reach("func")
}

// ---------------------------------------------------------------------------
// O4: built-in functions with documented results (spec 10.1, 10.2)

func call(name string, args ...ast.Expr) ast.Expr {
	return ast.FunctionCallExpr{Name: name, Args: args}
}

func VerifC01_NumericBuiltins() {
	a, b := zzverif.Int64("a"), zzverif.Int64("b")
	mn, ok1 := run(ret(call("min", lit(a), lit(b))))
	mx, ok2 := run(ret(call("max", lit(a), lit(b))))
	wantMin, wantMax := a, b
	if b < a {
		wantMin, wantMax = b, a
	}
	zzverif.Assert(ok1 && mn == interface{}(wantMin), "min(a, b)")
	zzverif.Assert(ok2 && mx == interface{}(wantMax), "max(a, b)")
	ab, ok3 := run(ret(call("abs", lit(a))))
	if a != -9223372036854775808 {
		want := a
		if a < 0 {
			want = -a
		}
		zzverif.Assert(ok3 && ab == interface{}(want), "abs(a)")
	}
	zzverif.Reach("num")
}

func VerifC01_StringBuiltins() {
	s := zzverif.StringFrom("s", 3, "abA ")
	t := zzverif.StringFrom("t", 1, "abA ")
	ln, ok1 := run(ret(call("length", lit(s))))
	zzverif.Assert(ok1 && ln == interface{}(int64(3)), "length(str)")
	up, ok2 := run(ret(call("upper", lit(s))))
	lo, ok3 := run(ret(call("lower", lit(s))))
	zzverif.Assert(ok2 && up == interface{}(strings.ToUpper(s)), "upper(str)")
	zzverif.Assert(ok3 && lo == interface{}(strings.ToLower(s)), "lower(str)")
	ct, ok4 := run(ret(call("contains", lit(s), lit(t))))
	sw, ok5 := run(ret(call("startsWith", lit(s), lit(t))))
	ew, ok6 := run(ret(call("endsWith", lit(s), lit(t))))
	zzverif.Assert(ok4 && ct == interface{}(s[0] == t[0] || s[1] == t[0] || s[2] == t[0]), "contains(str, substr)")
	zzverif.Assert(ok5 && sw == interface{}(s[0] == t[0]), "startsWith(str, prefix)")
	zzverif.Assert(ok6 && ew == interface{}(s[2] == t[0]), "endsWith(str, suffix)")
	ix, ok7 := run(ret(call("indexOf", lit(s), lit(t))))
	want := int64(-1)
	if s[0] == t[0] {
		want = 0
	} else if s[1] == t[0] {
		want = 1
	} else if s[2] == t[0] {
		want = 2
	}
	zzverif.Assert(ok7 && ix == interface{}(want), "indexOf(str, substr)")
	zzverif.Reach("strb")
}

func VerifC01_Substring() {
	s := zzverif.StringFrom("s", 3, "ab")
	i := int64(zzverif.IntRange("i", 0, 3))
	j := int64(zzverif.IntRange("j", 0, 3))
	zzverif.Assume(i <= j)
	sub, ok := run(ret(call("substring", lit(s), lit(i), lit(j))))
	zzverif.Assert(ok && sub == interface{}(s[i:j]), "substring(str, start, end)")
	k := int64(zzverif.IntRange("k", 0, 2))
	ch, ok2 := run(ret(call("charAt", lit(s), lit(k))))
	zzverif.Assert(ok2 && ch == interface{}(s[k:k+1]), "charAt(str, index)")
	zzverif.Reach("sub")
}

// ---------------------------------------------------------------------------
// O5: the outcome is a function of the program and its inputs only: building
// and iterating an object must not depend on Go's map order

func VerifC01_Determinism() {
	a, b := zzverif.Int64("a"), zzverif.Int64("b")
	body := []ast.Statement{
		let("o", ast.ObjectExpr{Fields: []ast.ObjectField{{Key: "p", Value: lit(a)}, {Key: "q", Value: lit(b)}}}),
		let("s", lit(int64(0))),
		ast.ForStatement{KeyVar: "k", ValueVar: "e", Iterable: v("o"), Body: []ast.Statement{
			set("s", bin(ast.Sub, bin(ast.Mul, v("s"), lit(int64(3))), v("e"))),
		}},
		ret(v("s")),
	}
	// under the engine every iteration order of the small maps involved is
	// explored (nondet_maps), so two runs suffice; natively Go picks the order
	// at random, so the program is run many times
	runs := 2
	if !zzverif.Symbolic() {
		runs = 64
	}
	r1, ok1 := run(body...)
	for k := 1; k < runs; k++ {
		r2, ok2 := run(body...)
		zzverif.Assert(ok1 == ok2 && r1 == r2, "for-in over an object: the same program and inputs gave two different outcomes")
	}
	zzverif.Reach("det")
}

func VerifC01_DeterminismKeys() {
	body := []ast.Statement{
		let("o", ast.ObjectExpr{Fields: []ast.ObjectField{{Key: "p", Value: lit(int64(1))}, {Key: "q", Value: lit(int64(2))}}}),
		let("ks", call("keys", v("o"))),
		ret(ast.ArrayIndexExpr{Array: v("ks"), Index: lit(int64(0))}),
	}
	runs := 2
	if !zzverif.Symbolic() {
		runs = 64
	}
	r1, ok1 := run(body...)
	for k := 1; k < runs; k++ {
		r2, ok2 := run(body...)
		zzverif.Assert(ok1 == ok2 && r1 == r2, "keys(): the same program and inputs gave two different outcomes")
	}
	zzverif.Reach("detkeys")
}

func VerifC01_Twin() {
	a, b := zzverif.Int64("a"), zzverif.Int64("b")
	got, ok := run(ret(bin(ast.Sub, lit(a), lit(b))))
	zzverif.Assert(ok && got == interface{}(b-a), "twin")
	zzverif.Reach("twin")
}

// ---------------------------------------------------------------------------
// match: literal / variable / wildcard / object patterns and guards; the
// bindings of a case that does not apply are not visible in later cases

func runSource(src string, body interface{}, params map[string]string) (interface{}, bool) {
	toks, err := parser.NewLexer(src).Tokenize()
	if err != nil {
		panic("harness program does not lex: " + err.Error())
	}
	m, err := parser.NewParser(toks).Parse()
	if err != nil {
		panic("harness program does not parse: " + err.Error())
	}
	in := interpreter.NewInterpreter()
	if err := in.LoadModule(*m); err != nil {
		panic("harness program does not load: " + err.Error())
	}
	for _, it := range m.Items {
		if r, ok := it.(*ast.Route); ok {
			resp, err := in.ExecuteRoute(r, &interpreter.Request{Path: r.Path, Method: r.Method.String(), Body: body, Params: params})
			if err != nil {
				return nil, false
			}
			return resp.Body, true
		}
	}
	panic("harness program has no route")
}

const srcMatchObject = `
@ POST /greet {
  $ name = "outer"
  $ msg = match input {
    {name, role: "admin"} => "A:" + name
    {name, role: "guest"} => "G:" + name
    _ => "O:" + name
  }
  > msg
}
`

func VerifC01_MatchObjectBindings() {
	who := zzverif.StringFrom("who", 1, "ab")
	role := []string{"admin", "guest", "other"}[zzverif.Choice("role", 3)]
	got, ok := runSource(srcMatchObject, map[string]interface{}{"name": who, "role": role}, nil)
	want := "O:outer"
	switch role {
	case "admin":
		want = "A:" + who
	case "guest":
		want = "G:" + who
	}
	zzverif.Assert(ok && got == interface{}(want), "match: a case that does not apply leaked its bindings, or the wrong case ran")
	zzverif.Reach("matchobj")
}

const srcMatchGuard = `
@ GET /quota/:requested {
  $ limit = 50
  $ asked = parseInt(requested)
  $ granted = match asked {
    limit when limit > 1000 => 1000
    0 => 0
    _ => limit
  }
  > granted
}
`

func VerifC01_MatchGuard() {
	req := []string{"5000", "0", "7", "1000", "1001"}[zzverif.Choice("requested", 5)]
	got, ok := runSource(srcMatchGuard, nil, map[string]string{"requested": req})
	want := int64(50)
	switch req {
	case "5000", "1001":
		want = 1000
	case "0":
		want = 0
	}
	zzverif.Assert(ok && got == interface{}(want), "match: guard / variable pattern binds or selects wrongly")
	zzverif.Reach("matchguard")
}

// arrays are values: + builds a new array and leaves its operands alone, also
// when they came out of append() (spare capacity)
const srcArrayConcat = `
@ GET /t {
  $ base = append(append(append([], 1), 2), 3)
  $ left = base + ["L"]
  $ right = base + ["R"]
  $ more = append(base, "M")
  > [left[3], right[3], more[3], length(base)]
}
`

func VerifC01_ArrayValues() {
	got, ok := runSource(srcArrayConcat, nil, nil)
	arr, isArr := got.([]interface{})
	zzverif.Assert(ok && isArr && len(arr) == 4, "array program failed")
	zzverif.Assert(arr[0] == interface{}("L") && arr[1] == interface{}("R") && arr[2] == interface{}("M") && arr[3] == interface{}(int64(3)),
		"array + / append changed an array another variable still holds")
	zzverif.Reach("arrays")
}

// for over an object with break / continue: keys are visited in ascending
// order, break leaves the loop, continue skips the rest of the pass
const srcForObject = `
@ GET /t/:stop/:skip {
  $ o = {a: 1, b: 2, c: 4, d: 8}
  $ s = 0
  $ seen = ""
  for k, v in o {
    if k == stop {
      break
    }
    if k == skip {
      continue
    }
    s = s + v
    seen = seen + k
  }
  > seen + ":" + toString(s)
}
`

func VerifC01_ForObjectBreakContinue() {
	keys := []string{"a", "b", "c", "d", "z"}
	stop := keys[zzverif.Choice("stop", 5)]
	skip := keys[zzverif.Choice("skip", 5)]
	got, ok := runSource(srcForObject, nil, map[string]string{"stop": stop, "skip": skip})
	seen, sum := "", 0
	for i, k := range []string{"a", "b", "c", "d"} {
		if k == stop {
			break
		}
		if k == skip {
			continue
		}
		sum += 1 << i
		seen += k
	}
	want := seen + ":" + string(rune('0'+sum/10)) + string(rune('0'+sum%10))
	if sum < 10 {
		want = seen + ":" + string(rune('0'+sum))
	}
	zzverif.Assert(ok && got == interface{}(want), "for over an object: break / continue executes other passes than specified")
	zzverif.Reach("forobj")
}

// user functions with several parameters: arguments are evaluated in the
// caller's scope, defaults fill the missing ones
const srcFunctions = `
! sub(a: int, b: int): int {
  > a - b
}

! gcd(a: int, b: int): int {
  if b == 0 {
    > a
  }
  > gcd(b, a % b)
}

@ GET /t/:which {
  $ a = 10
  $ b = 3
  if which == "swap" {
    > sub(b, a)
  }
  if which == "same" {
    > sub(a, b)
  }
  if which == "expr" {
    > sub(b + a, a * b)
  }
  > gcd(48, 18)
}
`

func VerifC01_FunctionArguments() {
	which := []string{"swap", "same", "expr", "gcd"}[zzverif.Choice("which", 4)]
	got, ok := runSource(srcFunctions, nil, map[string]string{"which": which})
	want := map[string]int64{"swap": -7, "same": 7, "expr": -17, "gcd": 6}[which]
	zzverif.Assert(ok && got == interface{}(want), "user function: arguments bound or evaluated in the wrong scope")
	zzverif.Reach("funcargs")
}

// pipes: `x |> f` is f(x), `x |> f(a)` is f(x, a); |> binds weaker than every
// binary operator and associates to the left
const srcPipe = `
! dbl(n: int): int {
  > n * 2
}

! sub(a: int, b: int): int {
  > a - b
}

@ POST /t/:which {
  $ a = input.a
  $ b = input.b
  if which == "plain" {
    > a |> dbl
  }
  if which == "extra" {
    > a |> sub(b)
  }
  if which == "prec" {
    > a + 1 |> dbl
  }
  if which == "chain" {
    > a |> dbl |> sub(b)
  }
  if which == "chain2" {
    > a |> sub(b) |> dbl
  }
  if which == "argexpr" {
    > a |> sub(b |> dbl)
  }
  > 0
}
`

func VerifC01_Pipe() {
	names := []string{"plain", "extra", "prec", "chain", "chain2", "argexpr"}
	k := zzverif.Choice("which", len(names))
	a, b := zzverif.Int64("a"), zzverif.Int64("b")
	got, ok := runSource(srcPipe, map[string]interface{}{"a": a, "b": b}, map[string]string{"which": names[k]})
	want := []int64{a * 2, a - b, (a + 1) * 2, a*2 - b, (a - b) * 2, a - b*2}[k]
	zzverif.Assert(ok && got == interface{}(want), "pipe: "+names[k]+" evaluates to something else than the call it stands for")
	zzverif.Reach("pipe")
}

// higher-order builtins with user functions as callbacks: a function passed
// to map / filter / reduce / find / some / every / sort computes what it
// computes when called directly - also when it calls other functions, calls
// itself, or reads a module constant
const srcHigherOrder = `
const K = 10

! inc(n: int): int {
  > n + 1
}

! inc2(n: int): int {
  > inc(inc(n))
}

! addk(n: int): int {
  > n + K
}

! fact(n: int): int {
  if n <= 1 {
    > 1
  }
  > n * fact(n - 1)
}

! big(n: int): bool {
  > inc(n) > 3
}

! add(a: int, b: int): int {
  > inc(a) + b - 1
}

@ POST /t/:which {
  $ xs = [input.a, input.b, 3]
  if which == "map-direct" {
    > map(xs, inc)
  }
  if which == "map-nested" {
    > map(xs, inc2)
  }
  if which == "map-const" {
    > map(xs, addk)
  }
  if which == "map-recursive" {
    > map([1, 3, 4], fact)
  }
  if which == "filter" {
    > filter(xs, big)
  }
  if which == "reduce" {
    > reduce(xs, add, 0)
  }
  if which == "find" {
    > find([1, 2, 3, 4], big)
  }
  if which == "some" {
    > some([1, 2, 3], big)
  }
  > every([3, 4], big)
}
`

func VerifC01_HigherOrder() {
	names := []string{"map-direct", "map-nested", "map-const", "map-recursive", "filter", "reduce", "find", "some", "every"}
	k := zzverif.Choice("which", len(names))
	a, b := int64(zzverif.IntRange("a", -4, 4)), int64(zzverif.IntRange("b", -4, 4))
	got, ok := runSource(srcHigherOrder, map[string]interface{}{"a": a, "b": b}, map[string]string{"which": names[k]})
	name := "higher-order builtin " + names[k] + ": a user function as callback computes something else than when called directly"
	zzverif.Assert(ok, name+" (error)")
	ints := func(want ...int64) bool {
		arr, isArr := got.([]interface{})
		if !isArr || len(arr) != len(want) {
			return false
		}
		for i := range want {
			if arr[i] != interface{}(want[i]) {
				return false
			}
		}
		return true
	}
	switch names[k] {
	case "map-direct":
		zzverif.Assert(ints(a+1, b+1, 4), name)
	case "map-nested":
		zzverif.Assert(ints(a+2, b+2, 5), name)
	case "map-const":
		zzverif.Assert(ints(a+10, b+10, 13), name)
	case "map-recursive":
		zzverif.Assert(ints(1, 6, 24), name)
	case "filter":
		var want []int64
		for _, x := range []int64{a, b, 3} {
			if x+1 > 3 {
				want = append(want, x)
			}
		}
		zzverif.Assert(ints(want...), name)
	case "reduce":
		zzverif.Assert(got == interface{}(a+b+3), name)
	case "find":
		zzverif.Assert(got == interface{}(int64(3)), name)
	case "some", "every":
		zzverif.Assert(got == interface{}(true), name)
	}
	zzverif.Reach("higher-order")
}

// switch: the first case whose value equals the subject runs, alone (no fall
// through); default runs when none does; case values are expressions; an int
// subject equals a float case of the same value; a `$` inside a case on a name
// visible outside updates the outer variable (spec 3.4); return inside a case
// leaves the route
const srcSwitch = `
@ POST /t {
  $ x = input.x
  $ y = input.y
  $ r = 0
  $ seen = 0
  switch x {
    case 1 {
      r = r + 10
    }
    case y {
      $ seen = 5
      r = r + 20 + seen
    }
    case 1 + 1 {
      r = r + 40
    }
    case 3 {
      > 0 - 1
    }
    default {
      r = r + 80
    }
  }
  switch x * 1.0 {
    case 2 {
      r = r + 100
    }
    case "2" {
      r = r + 200
    }
  }
  switch y {
    case 0 - 4 {
      r = r + 1000
    }
  }
  > r + seen
}
`

func VerifC01_Switch() {
	x, y := int64(zzverif.IntRange("x", -4, 4)), int64(zzverif.IntRange("y", -4, 4))
	got, ok := runSource(srcSwitch, map[string]interface{}{"x": x, "y": y}, nil)
	var want int64
	switch {
	case x == 1:
		want = 10
	case x == y:
		want = 25
	case x == 2:
		want = 40
	case x == 3:
		want = -1
	default:
		want = 80
	}
	if !(x == 3 && x != y) {
		if x == y && x != 1 {
			want += 5 // seen
		}
		if x == 2 {
			want += 100
		}
		if y == -4 {
			want += 1000
		}
	}
	zzverif.Assert(ok && got == interface{}(want), "switch: executes other statements than the first matching case (or default) alone")
	zzverif.Reach("switch")
}

// match with array patterns: a pattern of k fixed elements matches arrays of
// exactly k elements; with a rest binding it matches k or more and binds the
// tail; element patterns can be literals; the first matching case wins; no
// array length makes the evaluation crash
const srcMatchArray = `
@ POST /t {
  $ r = match input.items {
    [first, second, ...rest] => first + second * 10 + length(rest) * 100
    [7] => "seven"
    [x] => x
    [] => "empty"
    _ => "other"
  }
  > r
}
`

func VerifC01_MatchArray() {
	n := zzverif.IntRange("length", 0, 4)
	a, b := int64(zzverif.IntRange("a", 5, 8)), int64(zzverif.IntRange("b", -2, 2))
	var body interface{}
	switch zzverif.Choice("subject", 3) {
	case 0:
		items := make([]interface{}, n)
		for k := range items {
			items[k] = int64(k) + 1
		}
		if n > 0 {
			items[0] = a
		}
		if n > 1 {
			items[1] = b
		}
		body = map[string]interface{}{"items": items}
	case 1:
		body, n = map[string]interface{}{"items": "text"}, -1
	default:
		body, n = map[string]interface{}{"items": nil}, -1
	}
	got, ok := runSource(srcMatchArray, body, nil)
	zzverif.Assert(ok, "match on arrays: evaluation failed")
	var want interface{}
	switch {
	case n < 0:
		want = "other"
	case n == 0:
		want = "empty"
	case n == 1 && a == 7:
		want = "seven"
	case n == 1:
		want = a
	default:
		want = a + b*10 + int64(n-2)*100
	}
	zzverif.Assert(got == want, "match on arrays: another case than the first matching one ran, or a binding is wrong")
	zzverif.Reach("match-array")
}

// float comparisons over every pair of float64 values, NaN, infinities and
// signed zeros included: the six operators are the IEEE-754 ones (every ordered
// comparison with NaN is false, != is true), also against an int operand
func VerifC01_FloatCompare() {
	op := []ast.BinOp{ast.Eq, ast.Ne, ast.Lt, ast.Le, ast.Gt, ast.Ge}[zzverif.Choice("op", 6)]
	f := zzverif.Float64("f")
	var e ast.Expr
	var x, y float64
	switch zzverif.Choice("other operand", 3) {
	case 0:
		g := zzverif.Float64("g")
		e, x, y = bin(op, lit(f), lit(g)), f, g
	case 1:
		a := int64(zzverif.IntRange("a", -3, 3))
		e, x, y = bin(op, lit(f), lit(a)), f, float64(a)
	default:
		a := int64(zzverif.IntRange("a", -3, 3))
		e, x, y = bin(op, lit(a), lit(f)), float64(a), f
	}
	got, ok := run(ret(e))
	var want bool
	switch op {
	case ast.Eq:
		want = x == y
	case ast.Ne:
		want = x != y
	case ast.Lt:
		want = x < y
	case ast.Le:
		want = x <= y
	case ast.Gt:
		want = x > y
	default:
		want = x >= y
	}
	zzverif.Assert(ok && got == interface{}(want), "float comparison "+opNames[op]+" differs from IEEE-754 (NaN, infinities, signed zeros included)")
	zzverif.Reach("floatcmp")
}
