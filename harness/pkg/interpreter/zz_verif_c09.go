package interpreter

// C09 — futures settle once, combinators honour their contracts, async blocks
// do not race with their parent. Goroutine interleavings are explored by the
// engine's scheduler (pre-emption bound in checks/C09.json); the race monitor
// checks every pair of conflicting accesses on every explored schedule.

import (
	"errors"
	"sync"

	"github.com/glyphlang/glyph/internal/zzverif"
	"github.com/glyphlang/glyph/pkg/ast"
)

type zzOutcome struct {
	v   interface{}
	err error
}

var zzErrB = errors.New("B failed")
var zzErrA = errors.New("A failed")

// zzSettle applies one of the settle operations.
func zzSettle(f *Future, op int, v int64, e error) {
	switch op {
	case 0:
		f.Resolve(v)
	case 1:
		f.Reject(e)
	case 2:
		f.Cancel()
	}
}

// O1: two settlers and two awaiters on one Future.
func VerifC09_SettleOnce() {
	f := NewFuture()
	v1, v2 := zzverif.Int64("v1"), zzverif.Int64("v2")
	op1, op2 := zzverif.Choice("op1", 3), zzverif.Choice("op2", 3)
	var wg sync.WaitGroup
	var r [2]zzOutcome
	wg.Add(4)
	go func() { defer wg.Done(); zzSettle(f, op1, v1, zzErrA) }()
	go func() { defer wg.Done(); zzSettle(f, op2, v2, zzErrB) }()
	for k := 0; k < 2; k++ {
		go func(k int) { defer wg.Done(); r[k].v, r[k].err = f.Await() }(k)
	}
	wg.Wait()
	zzverif.Assert(r[0].err == r[1].err || (r[0].err != nil && r[1].err != nil && r[0].err.Error() == r[1].err.Error()), "awaiters-saw-different-errors")
	zzverif.Assert(r[0].v == r[1].v, "awaiters-saw-different-values")
	// the outcome is the outcome of one of the two operations
	is1 := (op1 == 0 && r[0].err == nil && r[0].v == interface{}(v1)) || (op1 == 1 && r[0].err == zzErrA) || (op1 == 2 && r[0].err != nil && r[0].err != zzErrA && r[0].err != zzErrB)
	is2 := (op2 == 0 && r[0].err == nil && r[0].v == interface{}(v2)) || (op2 == 1 && r[0].err == zzErrB) || (op2 == 2 && r[0].err != nil && r[0].err != zzErrA && r[0].err != zzErrB)
	zzverif.Assert(is1 || is2, "outcome-is-not-one-of-the-settle-operations")
	// a later await sees the same thing, and the state agrees
	v3, e3 := f.Await()
	zzverif.Assert(v3 == r[0].v && (e3 == nil) == (r[0].err == nil), "later-await-differs")
	zzverif.Assert(f.IsPending() == false && f.IsResolved() == (r[0].err == nil) && f.IsRejected() == (r[0].err != nil), "state-disagrees-with-outcome")
	zzverif.Reach("settle")
}

// inputs for the combinators: each future is settled by its own goroutine with
// a symbolic value and a chosen outcome kind (0 resolve, 1 reject)
func zzInputs(n int) ([]*Future, []int64, []int, []error, *sync.WaitGroup) {
	fs := make([]*Future, n)
	vs := make([]int64, n)
	ks := make([]int, n)
	es := make([]error, n)
	wg := &sync.WaitGroup{}
	for k := 0; k < n; k++ {
		fs[k] = NewFuture()
		vs[k] = zzverif.Int64("v")
		ks[k] = zzverif.Choice("kind", 2)
		es[k] = errors.New("input failed")
	}
	for k := 0; k < n; k++ {
		wg.Add(1)
		go func(k int) { defer wg.Done(); zzSettle(fs[k], ks[k], vs[k], es[k]) }(k)
	}
	return fs, vs, ks, es, wg
}

func zzAll(n int) {
	fs, vs, ks, es, wg := zzInputs(n)
	res := All(fs...)
	v, err := res.Await()
	wg.Wait()
	firstBad := -1
	for k := 0; k < n; k++ {
		if ks[k] == 1 {
			firstBad = k
			break
		}
	}
	if firstBad < 0 {
		zzverif.Assert(err == nil, "all: rejected although every input resolved")
		arr, ok := v.([]interface{})
		zzverif.Assert(ok && len(arr) == n, "all: result is not the list of values")
		for k := 0; k < n; k++ {
			zzverif.Assert(arr[k] == interface{}(vs[k]), "all: values not in argument order")
		}
	} else {
		zzverif.Assert(err != nil, "all: resolved although an input rejected")
		zzverif.Assert(err == es[firstBad], "all: error is not the first rejecting input's error")
	}
	v2, err2 := res.Await()
	zzverif.Assert((err2 == nil) == (err == nil) && (err != nil || len(v2.([]interface{})) == n), "all: second await differs")
	zzverif.Reach("all")
}

func VerifC09_All2() { zzAll(2) }
func VerifC09_All3() { zzAll(3) }

func zzRace(n int) {
	fs, vs, ks, es, wg := zzInputs(n)
	res := Race(fs...)
	v, err := res.Await()
	// the winner is an input that has settled by now, with exactly its outcome
	found := false
	for k := 0; k < n; k++ {
		if ks[k] == 0 && err == nil && v == interface{}(vs[k]) && fs[k].IsResolved() {
			found = true
		}
		if ks[k] == 1 && err == es[k] && fs[k].IsRejected() {
			found = true
		}
	}
	zzverif.Assert(found, "race: result is not the outcome of a settled input")
	wg.Wait()
	v2, err2 := res.Await()
	zzverif.Assert(v2 == v && err2 == err, "race: second await differs")
	zzverif.Reach("race")
}

func VerifC09_Race2() { zzRace(2) }
func VerifC09_Race3() { zzRace(3) }

func zzAny(n int) {
	fs, vs, ks, _, wg := zzInputs(n)
	res := Any(fs...)
	v, err := res.Await()
	wg.Wait()
	anyGood := false
	for k := 0; k < n; k++ {
		if ks[k] == 0 {
			anyGood = true
		}
	}
	if anyGood {
		zzverif.Assert(err == nil, "any: rejected although an input resolved")
		ok := false
		for k := 0; k < n; k++ {
			if ks[k] == 0 && v == interface{}(vs[k]) {
				ok = true
			}
		}
		zzverif.Assert(ok, "any: value is not a resolving input's value")
	} else {
		zzverif.Assert(err != nil, "any: resolved although every input rejected")
	}
	zzverif.Reach("any")
}

func VerifC09_Any2() { zzAny(2) }
func VerifC09_Any3() { zzAny(3) }

func VerifC09_Twin() {
	f := NewFuture()
	v1, v2 := zzverif.Int64("v1"), zzverif.Int64("v2")
	var wg sync.WaitGroup
	wg.Add(2)
	go func() { defer wg.Done(); f.Resolve(v1) }()
	go func() { defer wg.Done(); f.Resolve(v2) }()
	wg.Wait()
	v, _ := f.Await()
	zzverif.Assert(v == interface{}(v1), "twin")
	zzverif.Reach("twin")
}

// ---------------------------------------------------------------------------
// O3: async blocks against their parent, through the real ExecuteRoute.

func zzInt(v int64) ast.Expr   { return ast.LiteralExpr{Value: ast.IntLiteral{Value: v}} }
func zzVar(n string) ast.Expr  { return ast.VariableExpr{Name: n} }
func zzAdd(a, b ast.Expr) ast.Expr {
	return ast.BinaryOpExpr{Op: ast.Add, Left: a, Right: b}
}
func zzLet(n string, e ast.Expr) ast.Statement { return ast.AssignStatement{Target: n, Value: e} }
func zzRet(e ast.Expr) ast.Statement           { return ast.ReturnStatement{Value: e} }
func zzAsync(body ...ast.Statement) ast.Expr   { return ast.AsyncExpr{Body: body} }
func zzAwait(e ast.Expr) ast.Expr              { return ast.AwaitExpr{Expr: e} }

func zzRunRoute(body ...ast.Statement) (interface{}, bool) {
	in := NewInterpreter()
	resp, err := in.ExecuteRoute(&ast.Route{Path: "/t", Method: ast.Get, Body: body}, &Request{Path: "/t", Method: "GET"})
	if err != nil {
		return nil, false
	}
	return resp.Body, true
}

// parent keeps declaring variables while the block runs; block and parent
// communicate only through await
func VerifC09_AsyncParentDeclares() {
	a, b := zzverif.Int64("a"), zzverif.Int64("b")
	v, ok := zzRunRoute(
		zzLet("a", zzInt(a)),
		zzLet("f", zzAsync(zzRet(zzAdd(zzVar("a"), zzInt(1))))),
		zzLet("b", zzInt(b)),
		zzLet("c", zzAdd(zzVar("b"), zzInt(1))),
		zzRet(zzAwait(zzVar("f"))),
	)
	zzverif.Assert(ok, "async-parent-declares: route failed")
	zzverif.Assert(v == interface{}(a+1), "async-parent-declares: result depends on the schedule or is wrong")
	zzverif.Reach("async1")
}

// two blocks, each with its own local variables, parent declares in between
func VerifC09_AsyncTwoBlocks() {
	a, b := zzverif.Int64("a"), zzverif.Int64("b")
	v, ok := zzRunRoute(
		zzLet("a", zzInt(a)),
		zzLet("f", zzAsync(zzLet("t", zzAdd(zzVar("a"), zzInt(1))), zzRet(zzVar("t")))),
		zzLet("b", zzInt(b)),
		zzLet("g", zzAsync(zzLet("t", zzAdd(zzVar("b"), zzInt(2))), zzRet(zzVar("t")))),
		zzLet("x", zzAwait(zzVar("f"))),
		zzLet("y", zzAwait(zzVar("g"))),
		zzRet(zzAdd(zzVar("x"), zzVar("y"))),
	)
	zzverif.Assert(ok, "async-two-blocks: route failed")
	zzverif.Assert(v == interface{}(a+1+b+2), "async-two-blocks: result depends on the schedule or is wrong")
	zzverif.Reach("async2")
}

// nested block and a block with control flow
func VerifC09_AsyncNestedControl() {
	a := zzverif.Int64("a")
	c := zzverif.Bool("c")
	v, ok := zzRunRoute(
		zzLet("a", zzInt(a)),
		zzLet("c", ast.LiteralExpr{Value: ast.BoolLiteral{Value: c}}),
		zzLet("f", zzAsync(
			zzLet("g", zzAsync(zzRet(zzAdd(zzVar("a"), zzInt(1))))),
			ast.IfStatement{Condition: zzVar("c"), ThenBlock: []ast.Statement{zzRet(zzAwait(zzVar("g")))}},
			zzRet(zzInt(7)),
		)),
		zzLet("z", zzInt(0)),
		zzRet(zzAwait(zzVar("f"))),
	)
	zzverif.Assert(ok, "async-nested: route failed")
	want := int64(7)
	if c {
		want = a + 1
	}
	zzverif.Assert(v == interface{}(want), "async-nested: result depends on the schedule or is wrong")
	zzverif.Reach("async3")
}

// a failing block: every await raises its error, the route fails, nothing else breaks
func VerifC09_AsyncError() {
	b := zzverif.Int64("b")
	_, ok := zzRunRoute(
		zzLet("f", zzAsync(zzRet(ast.BinaryOpExpr{Op: ast.Div, Left: zzInt(1), Right: zzInt(b)}))),
		zzLet("z", zzInt(0)),
		zzRet(zzAwait(zzVar("f"))),
	)
	zzverif.Assert(ok == (b != 0), "async-error: await did not raise the block's error exactly when the block failed")
	zzverif.Reach("async4")
}

// parent keeps assigning an outer variable in a loop while the block reads
// another one. Under the engine the loop runs 2 times (every interleaving
// within the delay bound is explored); the native replay runs the same program
// with a long loop so that the two goroutines really overlap and the Go race
// detector can see the unsynchronised map accesses the engine reports.
func VerifC09_AsyncParentAssigns() {
	a := zzverif.Int64("a")
	n := int64(2)
	if !zzverif.Symbolic() {
		n = 30000
	}
	v, ok := zzRunRoute(
		zzLet("a", zzInt(a)),
		zzLet("x", zzInt(0)),
		zzLet("f", zzAsync(zzLet("t", zzAdd(zzVar("a"), zzInt(1))), zzRet(zzAdd(zzVar("t"), zzVar("a"))))),
		ast.WhileStatement{Condition: ast.BinaryOpExpr{Op: ast.Lt, Left: zzVar("x"), Right: zzInt(n)},
			Body: []ast.Statement{ast.ReassignStatement{Target: "x", Value: zzAdd(zzVar("x"), zzInt(1))}}},
		zzLet("y", zzInt(5)),
		zzRet(zzAwait(zzVar("f"))),
	)
	zzverif.Assert(ok, "async-parent-assigns: route failed")
	zzverif.Assert(v == interface{}(a+1+a), "async-parent-assigns: result depends on the schedule or is wrong")
	zzverif.Reach("async5")
}

// async blocks spawned from nested scopes (the first statement of an if / while
// body, a scope with no bindings of its own yet) while the parent goes on
// assigning a variable of an enclosing scope: the block works on the values of
// the moment it was spawned
func VerifC09_AsyncFromNestedScope() {
	a, b := zzverif.Int64("a"), zzverif.Int64("b")
	form := zzverif.Choice("form", 3)
	spawn := zzLet("f", zzAsync(zzRet(zzAdd(zzVar("x"), zzInt(1)))))
	bump := ast.ReassignStatement{Target: "x", Value: zzInt(b)}
	await := zzLet("r", zzAwait(zzVar("f")))
	var nested ast.Statement
	switch form {
	case 0:
		nested = ast.IfStatement{Condition: ast.LiteralExpr{Value: ast.BoolLiteral{Value: true}}, ThenBlock: []ast.Statement{spawn, bump, await, ast.ReassignStatement{Target: "out", Value: zzVar("r")}}}
	case 1:
		nested = ast.WhileStatement{Condition: ast.BinaryOpExpr{Op: ast.Lt, Left: zzVar("n"), Right: zzInt(1)}, Body: []ast.Statement{spawn, bump, await,
			ast.ReassignStatement{Target: "out", Value: zzVar("r")}, ast.ReassignStatement{Target: "n", Value: zzAdd(zzVar("n"), zzInt(1))}}}
	default:
		nested = ast.IfStatement{Condition: ast.LiteralExpr{Value: ast.BoolLiteral{Value: true}}, ThenBlock: []ast.Statement{
			zzLet("local", zzInt(5)), spawn, bump, zzLet("other", zzInt(6)), await, ast.ReassignStatement{Target: "out", Value: zzVar("r")}}}
	}
	v, ok := zzRunRoute(
		zzLet("x", zzInt(a)),
		zzLet("out", zzInt(0)),
		zzLet("n", zzInt(0)),
		nested,
		zzRet(zzVar("out")),
	)
	want := a + 1
	zzverif.Assert(ok, "async-from-nested-scope: route failed")
	zzverif.Assert(v == interface{}(want), "async-from-nested-scope: the block saw the parent's later assignment (result depends on the schedule)")
	zzverif.Reach("async-nested-scope")
}
