#!/usr/bin/env python3
# Regenerates /verif/MANIFEST.json from the table below + checks/*.json.
import json, os
V = os.path.dirname(os.path.dirname(os.path.abspath(__file__)))
props = [json.loads(l) for l in open(os.path.join(V, 'properties.jsonl'))]
TECH = "SMT-based symbolic execution of the real Go SSA (own engine gosym, z3 decides every branch and assertion within the stated bounds); counterexamples and sampled path witnesses replayed natively"
TRUST = "trusted base: go/ssa construction, the gosym interpreter and its listed stubs, z3 4.8.12; bounds as listed in checks/%s.json and repeated in the evidence file; nothing is claimed outside them"
claims = {
 "C14": ("fault_enumeration", "the real Transaction wrappers (SQLiteDB/PostgresDB/MySQLDB/ORM) and the three BulkInsert implementations over a model store driven through a modelled database/sql: failing Begin/Commit/Rollback, failing statement positions, callback error, panic position and context-cancellation position are solver variables / engine choices; oracle = all-or-nothing, transaction finished on every exit, panic re-raised, handle usable afterwards; transient-looking callback errors, a callback run twice, and nested transactions over a per-transaction store. Wrapper logic only: the database engine's own atomicity is not claimed", "section 4 C14"),
 "C17": ("model_checking", "symbolic URL path / SendFile target bytes (full byte range) through the real StaticFileServer.ServeHTTP and ResponseHelper.SendFile, with path.Clean, filepath.Join and filepath.EvalSymlinks interpreted from their source over a model file system that implements Unix path resolution on symbolic bytes; every served body names the physical file it came from, which must be a regular file under the resolved root", "section 4 C17"),
 "C11": ("model_checking", "the real rateLimitMiddleware -> RateLimitMiddleware chain on a virtual clock: symbolic declared N, every window spelling, greedy arrivals on a time grid, against the property's bound N x (1+T/window); client identity (port, forwarding headers) with symbolic bytes", "section 4 C11"),
 "C12": ("model_checking", "symbolic method-name byte strings through every call form (CallMethod/HasMethod, obj.m(a), m(obj,a), nested paths, field access) against a probe provider whose off-list methods fail the check when invoked; argument vectors of every kind through the modelled reflect.Call with its documented panics", "section 4 C12"),
 "C13": ("model_checking", "symbolic identifier/operator/direction/join/column-type byte strings through the real sanitizers, QueryBuilder.Build and ORM statement builders; the produced SQL must equal the fixed template over identifiers that satisfy an independently written safe grammar, with values only in the bound-argument list. Text structure only: execution against a real database is not claimed", "section 4 C13"),
 "C15": ("translation_validation", "symbolic histories of JIT calls (compile, typed compile, executions, deoptimisation, invalidation with redefinition, clear, adaptive recompilation) under symbolic thresholds and clock; every bytecode handed out is executed on the VM with a symbolic input and compared with the current definition", "section 4 C15"),
 "C20": ("model_checking", "bounded symbolic execution of the real LRUCache code against a reference LRU: every feasible path of every operation history (Set/Get/Delete/Clear, tagged entries and DeleteByTag, eviction callback) within the bounds is decided by z3, byte accounting compared with the bytes really held; termination of Set is an unwinding obligation; two goroutines on one cache under delay-bounded schedules with a happens-before monitor", "section 4 C20"),
 "C04": ("model_checking", "Go panics, oversized allocations and non-termination are implicit assertions of the symbolic executor: every interpreter and VM builtin on argument vectors of every kind with symbolic payloads, index assignment on every kind, looping/recursing programs against the (scaled) guards, and route outcomes through the real HTTP handlers with a recording writer", "section 4 C04"),
 "C05": ("model_checking", "Router.Match on symbolic route tables and symbolic request paths against the declarative most-specific-match rule; all table shapes/orders within the bounds; programs wired through the real setupRoutes + createHandler in both modes (identical duplicate declarations, every Go map iteration order in compiled mode) and raw request paths", "section 4 C05"),
 "C02": ("translation_validation", "differential execution of the two engines (interpreter.ExecuteRoute vs compiler.CompileRoute+vm.Execute) on symbolic-leaf program templates: for every operator, operand kind and payload within the bounds z3 decides whether the outcomes can differ", "section 4 C02"),
 "C03": ("translation_validation", "-O1/-O2 bytecode against -O0 bytecode on the VM for pointer-form AST templates with symbolic literals and a free variable of every runtime kind: z3 decides whether any literal value / runtime value makes the optimised program's outcome differ", "section 4 C03"),
 "C06": ("model_checking", "the real routeMiddlewares chain (authMiddleware, apiKeyMiddleware, denyAll, BasicAuthMiddleware with lockout) on symbolic credential sources and headers against an independently written credential predicate; lockout histories on a virtual clock", "section 4 C06"),
 "C07": ("model_checking", "the real ExecuteRoute input binding (ApplyTypeDefaults, ValidateObjectAgainstTypeDef, CheckType), ProcessQueryParams and the return-type check on symbolic JSON-shaped values against a contract predicate written from the property statement; the compiled handler's input validation across a reload; self-recursive types; defaults across requests on one interpreter", "section 4 C07"),
 "C18": ("model_checking", "symbolic source bytes through the real CanonicalizeSource (idempotence for every byte string in the bounds) and through the real Lexer before and after formatting (token sequence preserved); program templates with a symbolic identifier / symbolic line-leading symbol through the real ExpandSource, CompactSource, ExpandedLexer, Lexer and Parser with structural tree comparison", "section 4 C18"),
 "C19": ("fault_enumeration", "the real ReloadManager.handleChanges over change batches with symbolic paths and symbolic compile / reload / state-restore outcomes, and the real hotReloadManager.startServer/reload (parseSource, setupRoutes, handlers) over edit sequences drawn from {valid version k, parse error, semantic error, empty, deleted} with http.Server / ServeMux / os.ReadFile modelled: after every step exactly one server listens and answers with the latest version that loaded; two overlapping reload() calls under delay-bounded schedules; the polling FileWatcher over edit histories on a model file system (size, mtime from the virtual clock; content digest taken as collision free)", "section 4 C19"),
 "C09": ("model_checking", "goroutine schedules as engine choices (delay-bounded round-robin scheduler) over the real Future, All/Race/Any, evaluateAsyncExpr/ExecuteRoute and compiled OpAsync/OpAwait code with symbolic values; on every explored schedule a happens-before monitor checks all conflicting accesses, the result is compared with the schedule-independent expected value, and compiled async blocks are compared with the interpreter", "section 4 C09"),
 "C16": ("model_checking", "the real Hub.Run loop, RoomManager, Room and Connection code driven by operation histories (engine choices over configuration, operation, connection, room) against a membership model checked after every step, and by racing actors under delay-bounded schedule exploration with a happens-before monitor; crashes (send on closed channel), deadlocks (all goroutines blocked) and view disagreements are the violations", "section 4 C16"),
 "C08": ("model_checking", "two goroutines running the real ExecuteRoute on one long-lived interpreter (programs parsed from source, mock database attached) under delay-bounded schedule exploration: a happens-before monitor checks every pair of conflicting accesses on every explored schedule and each reply is compared with the reply the request gets alone; the in-memory Redis provider's incr/decr; compiled handlers after a request that failed at run time", "section 4 C08"),
 "C01": ("model_checking", "the real interpreter (ExecuteRoute, EvaluateExpression, executor, builtins) and the real lexer/parser on symbolic-leaf expressions, operator token pairs and statement templates against reference results written from the language specification; for all operand values within the bounds z3 decides whether the interpreter's outcome can differ from the documented one; object iteration under every Go map order", "section 4 C01"),
 "C10": ("model_checking", "symbolic byte buffers through the real bytecode loader and VM (step limit, allocation bound and termination as implicit assertions) symbolic source bytes through the real lexer and parser, symbolic bytes / one instruction at operand boundaries through the decompiler, and a compile -> decompile / load -> run round trip", "section 4 C10"),
}
NA_REASON = {}
checks = []
for pid in sorted(claims):
    cat, text, ref = claims[pid]
    cfg = json.load(open(os.path.join(V, 'checks', pid + '.json')))
    assert cfg['level'] == cat, pid
    checks.append({
        "property_id": pid,
        "quick_cmd": "bin/check %s quick" % pid,
        "thorough_cmd": "bin/check %s thorough" % pid,
        "evidence_file": "/verif/evidence/%s.json" % pid,
        "replay_cmd_template": "cat {path}",
        "engine": "gosym",
        "level_claimed": {"category": cat, "text": text, "design_ref": "DESIGN.md " + ref},
        "level_note": (TRUST % pid) + "; outside the claim: " + "; ".join(cfg.get('outside_claim', [])),
        "technique": TECH,
    })
na = []
for p in props:
    if p['id'] not in claims:
        na.append({"property_id": p['id'], "reason": NA_REASON.get(p['id'], "no check registered yet: the harnesses for this property have not been built/run clean in this session (see DESIGN.md section 4 for the plan)")})
m = {
 "version": 1,
 "setup_cmd": "sh bin/setup",
 "hooks": {"guard": "verif", "enable": "no source hooks: harness files and the harness runtime are injected with go/packages overlays (engine) and go test -overlay (native replay)", "baseline_off_cmd": "cd /repo && go test -vet=off -count=1 -timeout 25m ./...", "source_commits": [], "add_only": True},
 "engines": [{"name": "gosym", "path": "/verif/engine", "serves_properties": sorted(claims), "kind_free_text": "symbolic executor for Go SSA (golang.org/x/tools/go/ssa v0.50.0) with z3 as the deciding back end; path exploration by re-execution with decision prefixes; native replay of every counterexample and of sampled path witnesses"}],
 "checks": checks,
 "not_applicable": na,
 "notes": "Solver-based checking of the real code; see DESIGN.md. Genuine defects found are repaired by fix: commits in /repo or listed in known_findings.jsonl.",
}
json.dump(m, open(os.path.join(V, 'MANIFEST.json'), 'w'), indent=1)
print("claimed:", sorted(claims))
