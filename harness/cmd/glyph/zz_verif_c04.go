package main

// C04 — over HTTP a failing route is a 5xx with a generic body (or a 4xx that
// describes the caller's mistake), never a 2xx or a body carrying Go error text;
// a compiled route that never ends is stopped.

import (
	"encoding/json"
	"net/http"
	"net/url"

	"github.com/glyphlang/glyph/internal/zzverif"
	"github.com/glyphlang/glyph/pkg/ast"
	"github.com/glyphlang/glyph/pkg/compiler"
	"github.com/glyphlang/glyph/pkg/interpreter"
	"github.com/glyphlang/glyph/pkg/server"
)

// zzLastJSON returns what the handler handed to the JSON encoder last.
func zzLastJSON(rec *zzRec) interface{} {
	if zzverif.Symbolic() {
		n := zzverif.JSONCount()
		if n == 0 {
			return nil
		}
		return zzverif.JSONValue(n - 1)
	}
	var v interface{}
	if json.Unmarshal(rec.body, &v) != nil {
		return nil
	}
	return v
}

// zzGenericError: is v exactly the generic error object?
func zzGenericError(v interface{}) bool {
	switch m := v.(type) {
	case map[string]interface{}:
		e, ok := m["error"].(string)
		return ok && len(m) == 1 && e == "Internal server error"
	case map[string]string:
		return len(m) == 1 && m["error"] == "Internal server error"
	}
	return false
}

func zzLit(v int64) ast.Expr { return ast.LiteralExpr{Value: ast.IntLiteral{Value: v}} }

// zzOutcomeRoute builds a route whose body ends in the chosen way.
func zzOutcomeRoute(kind int, x int64) (*ast.Route, string, bool) {
	var body []ast.Statement
	name, fails := "", false
	switch kind {
	case 0:
		body, name = []ast.Statement{ast.ReturnStatement{Value: zzLit(x)}}, "value"
	case 1:
		body, name, fails = []ast.Statement{ast.ReturnStatement{Value: ast.BinaryOpExpr{Op: ast.Div, Left: zzLit(1), Right: zzLit(x)}}}, "divide", x == 0
	case 2:
		body, name, fails = []ast.Statement{ast.ReturnStatement{Value: ast.BinaryOpExpr{Op: ast.Sub, Left: ast.LiteralExpr{Value: ast.StringLiteral{Value: "s"}}, Right: zzLit(x)}}}, "type-error", true
	case 3:
		body, name, fails = []ast.Statement{ast.ReturnStatement{Value: ast.ArrayIndexExpr{Array: ast.ArrayExpr{Elements: []ast.Expr{zzLit(1)}}, Index: zzLit(x)}}}, "index", x != 0
	case 4:
		body, name, fails = []ast.Statement{ast.ReturnStatement{Value: ast.FieldAccessExpr{Object: ast.LiteralExpr{Value: ast.NullLiteral{}}, Field: "f"}}}, "null-field", true
	default:
		body, name, fails = []ast.Statement{ast.ReturnStatement{Value: ast.FunctionCallExpr{Name: "substring", Args: []ast.Expr{ast.LiteralExpr{Value: ast.StringLiteral{Value: "abc"}}, zzLit(x), zzLit(1)}}}}, "builtin", false
	}
	return &ast.Route{Path: "/t", Method: ast.Get, Body: body}, name, fails
}

func VerifC04_HTTPMapping() {
	x := int64(zzverif.IntRange("x", -1, 2))
	route, name, fails := zzOutcomeRoute(zzverif.Choice("outcome", 6), x)
	req := &http.Request{Method: "GET", Header: http.Header{}, URL: &url.URL{Path: "/t"}, RemoteAddr: "10.0.0.1:1"}
	rec := &zzRec{}
	ctx := &server.Context{Request: req, ResponseWriter: rec, StatusCode: 200}
	mode := "interpreted"
	var herr error
	if zzverif.Choice("compiled", 2) == 1 {
		mode = "compiled"
		bc, err := compiler.NewCompilerWithOptLevel(compiler.OptBasic).CompileRoute(route)
		if err != nil {
			zzverif.Reach("http-mapping") // the server falls back to the interpreter
			return
		}
		herr = createCompiledRouteHandler(route, bc, nil)(ctx)
	} else {
		herr = createRouteHandler(route, interpreter.NewInterpreter())(ctx)
	}
	status := rec.status
	if !rec.wrote {
		status = ctx.StatusCode
	}
	key := mode + " " + name
	zzverif.Assert(herr == nil, "handler-returned-an-error "+key)
	if status >= 200 && status < 300 {
		zzverif.Assert(!fails || name == "builtin", "failing-route-answered-2xx "+key)
	} else {
		zzverif.Assert(status >= 500 && status <= 599, "failure-is-not-5xx "+key)
		zzverif.Assert(zzGenericError(zzLastJSON(rec)), "error-body-is-not-the-generic-object "+key)
	}
	if fails {
		zzverif.Assert(status >= 500, "failing-route-not-reported-as-5xx "+key)
	}
	zzverif.Reach("http-mapping")
}

// A compiled route that never ends must be stopped by the handler.
func VerifC04_CompiledLoopStops() {
	route := &ast.Route{Path: "/t", Method: ast.Get, Body: []ast.Statement{
		ast.WhileStatement{Condition: ast.LiteralExpr{Value: ast.BoolLiteral{Value: true}},
			Body: []ast.Statement{ast.AssignStatement{Target: "x", Value: zzLit(int64(zzverif.IntRange("x", 0, 1)))}}},
		ast.ReturnStatement{Value: zzLit(1)}}}
	bc, err := compiler.NewCompilerWithOptLevel(compiler.OptBasic).CompileRoute(route)
	if err != nil {
		zzverif.Fail("loop-route-does-not-compile")
	}
	req := &http.Request{Method: "GET", Header: http.Header{}, URL: &url.URL{Path: "/t"}, RemoteAddr: "10.0.0.1:1"}
	rec := &zzRec{}
	ctx := &server.Context{Request: req, ResponseWriter: rec, StatusCode: 200}
	zzverif.Obligation("compiled while(true) is stopped by the handler")
	createCompiledRouteHandler(route, bc, nil)(ctx)
	zzverif.Assert(rec.status >= 500, "endless-compiled-route-not-5xx")
	zzverif.Reach("compiled-loop")
}

// A route whose result JSON cannot carry (NaN, +Inf: parseFloat("NaN"),
// parseFloat("1e308") * 10.0) fails as a request: through the real setupRoutes +
// createHandler the client gets a 5xx with the generic body, whatever status
// the route attached to the value - never a 2xx status line followed by an
// error body.
func VerifC04_UnencodableResult() {
	exprs := []string{`parseFloat("NaN")`, `parseFloat("1e308") * 10.0`, `{ok: true, v: [1.5, parseFloat("NaN")]}`, `1.5`}
	k := zzverif.Choice("value", len(exprs))
	status := []string{"", " :: 200", " :: 201", " :: 202"}[zzverif.Choice("status", 4)]
	interpreted := zzverif.Bool("interpreted")
	module, err := parseSource("@ GET /t {\n  > " + exprs[k] + status + "\n}\n")
	if err != nil {
		panic("harness program does not parse: " + err.Error())
	}
	_, _, _, router, err := setupRoutes(module, "/app/main.glyph", interpreted)
	if err != nil {
		zzverif.Fail("setupRoutes rejected a valid program")
	}
	rec := &zzRec{}
	createHandler(router)(rec, &http.Request{Method: "GET", Header: http.Header{}, URL: &url.URL{Path: "/t"}, RemoteAddr: "10.0.0.1:1"})
	mode := "compiled"
	if interpreted {
		mode = "interpreted"
	}
	name := mode + " > " + exprs[k] + status
	if k == len(exprs)-1 {
		zzverif.Assert(rec.status >= 200 && rec.status < 300, "encodable result not answered 2xx: "+name)
	} else {
		zzverif.Assert(rec.status >= 500 && rec.status <= 599, "a result JSON cannot carry is not reported as 5xx: "+name)
	}
	zzverif.Reach("unencodable")
}
