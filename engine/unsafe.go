package main

import (
	"fmt"

	"golang.org/x/tools/go/ssa"
	"golang.org/x/tools/go/ssa/ssautil"
)

type ssaFunc = ssa.Function

var allFuncsCache map[string]*ssa.Function

func (i *interpreter) findFuncByName(name string) *ssa.Function {
	fnInfoMu.Lock()
	defer fnInfoMu.Unlock()
	if allFuncsCache == nil {
		allFuncsCache = map[string]*ssa.Function{}
		for fn := range ssautil.AllFunctions(i.prog) {
			allFuncsCache[fn.String()] = fn
		}
	}
	return allFuncsCache[name]
}

// uptr models the result of unsafe.SliceData / unsafe.StringData: it keeps
// the backing sequence so that unsafe.String / unsafe.Slice can rebuild it.
type uptr struct {
	sl  []value
	str value
}

func unsafeData(fr *frame, args []value) value {
	switch x := args[0].(type) {
	case []value:
		return &uptr{sl: x}
	case string, symstr:
		return &uptr{str: x}
	}
	panic(engineErr{fmt.Sprintf("UNSUPPORTED unsafe data of %T", args[0])})
}

func unsafeString(fr *frame, args []value) value {
	n := int(fr.concInt(args[1], 0, 1<<30, "unsafe.String len"))
	switch p := args[0].(type) {
	case *uptr:
		if p.str != nil {
			return mkstr(append([]value(nil), bytesOfStr(p.str)[:n]...))
		}
		return mkstr(append([]value(nil), p.sl[:n]...))
	case *value:
		if n == 0 {
			return ""
		}
	}
	panic(engineErr{fmt.Sprintf("UNSUPPORTED unsafe.String of %T", args[0])})
}

func unsafeSlice(fr *frame, args []value) value {
	n := int(fr.concInt(args[1], 0, 1<<30, "unsafe.Slice len"))
	switch p := args[0].(type) {
	case *uptr:
		if p.str != nil {
			return append([]value(nil), bytesOfStr(p.str)[:n]...)
		}
		return p.sl[:n]
	}
	panic(engineErr{fmt.Sprintf("UNSUPPORTED unsafe.Slice of %T", args[0])})
}

func (i *interpreter) applyScale(cfg *harnessCfg) {
	i.scale = nil
	for _, sc := range cfg.Scale {
		fn := i.findFuncByName(sc.Func)
		if fn == nil {
			panic(engineErr{"scale: function not found: " + sc.Func})
		}
		if i.scale == nil {
			i.scale = map[*ssaFunc]map[int64]int64{}
		}
		if i.scale[fn] == nil {
			i.scale[fn] = map[int64]int64{}
		}
		i.scale[fn][sc.From] = sc.To
	}
}

func (i *interpreter) unapplyScale(cfg *harnessCfg) { i.scale = nil }
