package main

// C19 (CLI half) — the dev server's hotReloadManager over edit sequences:
// after any sequence of edits (valid version k, parse error, semantic error,
// empty file, file deleted) exactly one server is listening and it answers
// with the most recent version that loaded. Under the engine http.Server /
// ServeMux / os.ReadFile are modelled (a "listening" flag per server and
// address, a model file); natively the same harness runs the real dev server
// on a loopback port and asks it over TCP.

import (
	"encoding/json"
	"io"
	"net/http"
	"net/url"
	"strconv"
	"time"

	"github.com/glyphlang/glyph/internal/zzverif"
	"github.com/glyphlang/glyph/pkg/vm"
)

const zzDevPort = 38519

func zzVersionSource(k int) string {
	return "@ GET /v {\n  > " + strconv.Itoa(100+k) + "\n}\n"
}

// zzDevGet asks the dev server for /v: (status, marker); status -1 = nothing listening.
func zzDevGet() (int, int) {
	addr := listenAddr(zzDevPort)
	if zzverif.Symbolic() {
		s, _ := zzverif.ListeningServer(addr).(*http.Server)
		if s == nil {
			return -1, 0
		}
		rec := &zzRec{}
		before := zzverif.JSONCount()
		s.Handler.ServeHTTP(rec, &http.Request{Method: "GET", URL: &url.URL{Path: "/v"}, Header: http.Header{}, RemoteAddr: "127.0.0.1:5"})
		marker := 0
		if zzverif.JSONCount() > before {
			switch n := zzverif.JSONValue(zzverif.JSONCount() - 1).(type) {
			case int64:
				marker = int(n)
			case vm.IntValue:
				marker = int(n.Val)
			}
		}
		return rec.status, marker
	}
	c := &http.Client{Timeout: 2 * time.Second}
	resp, err := c.Get("http://" + addr + "/v")
	if err != nil {
		return -1, 0
	}
	defer resp.Body.Close()
	b, _ := io.ReadAll(resp.Body)
	var v interface{}
	marker := 0
	if json.Unmarshal(b, &v) == nil {
		if f, ok := v.(float64); ok {
			marker = int(f)
		}
	}
	return resp.StatusCode, marker
}

func zzDevHistory(k int) {
	zzverif.FSReset()
	zzverif.FSFile("/app/main.glyph", zzVersionSource(0))
	m := &hotReloadManager{filePath: zzverif.FSPath("/app/main.glyph"), port: zzDevPort, liveReloadConns: make(map[*liveReloadConn]bool)}
	defer func() {
		if m.server != nil {
			m.server.Close()
		}
	}()
	zzverif.Obligation("startServer / reload return")
	if err := m.startServer(); err != nil {
		zzverif.Fail("initial valid version does not start")
	}
	st, mk := zzDevGet()
	zzverif.Assert(st != -1, "initial version: nothing listening")
	zzverif.Assert(st == 200, "initial version: status "+strconv.Itoa(st))
	zzverif.Assert(mk == 100, "initial version: wrong marker "+strconv.Itoa(mk))
	want := 100
	wantEmptyOK := false // an empty file loads as a program without routes: either outcome is accepted
	for step := 1; step <= k; step++ {
		kind := zzverif.Choice("edit", 5)
		name := ""
		switch kind {
		case 0:
			zzverif.FSFile("/app/main.glyph", zzVersionSource(step))
			want, wantEmptyOK, name = 100+step, false, "valid"
		case 1:
			zzverif.FSFile("/app/main.glyph", "@ GET /v {\n  > (1 +\n}\n")
			name = "parse-error"
		case 2:
			zzverif.FSFile("/app/main.glyph", "@ GET /v {\n  $ x = 1\n  $ x = 2\n  > x\n}\n")
			name = "semantic-error"
		case 3:
			zzverif.FSFile("/app/main.glyph", "")
			wantEmptyOK, name = true, "empty"
		case 4:
			zzverif.FSRemove("/app/main.glyph")
			name = "deleted"
		}
		m.reload()
		st, mk := zzDevGet()
		zzverif.Assert(st != -1, "after "+name+" edit: nothing is listening")
		if zzverif.Symbolic() {
			zzverif.Assert(zzverif.ListeningCount(listenAddr(zzDevPort)) == 1, "after "+name+" edit: more than one server listening on the port")
		}
		if wantEmptyOK && st == 404 {
			// the empty program is being served
			want = 0
			continue
		}
		if want == 0 {
			zzverif.Assert(st == 404, "after "+name+" edit: empty program was the latest good version but something else answers")
			continue
		}
		zzverif.Assert(st == 200 && mk == want, "after "+name+" edit: latest good version not served")
	}
	zzverif.Reach("dev")
}

func VerifC19_DevServer1() { zzDevHistory(1) }
func VerifC19_DevServer2() { zzDevHistory(2) }
func VerifC19_DevServer3() { zzDevHistory(3) }

// Two saves in quick succession: the second save's reload starts while the
// first one is still rebuilding the server (the debounce timer fires reload()
// on its own goroutine). Whatever the overlap, once both have returned the
// server answers with the version on disk.
func VerifC19_DevOverlappingReloads() {
	zzverif.FSReset()
	zzverif.FSFile("/app/main.glyph", zzVersionSource(0))
	m := &hotReloadManager{filePath: zzverif.FSPath("/app/main.glyph"), port: zzDevPort, liveReloadConns: make(map[*liveReloadConn]bool)}
	defer func() {
		if m.server != nil {
			m.server.Close()
		}
	}()
	if err := m.startServer(); err != nil {
		zzverif.Fail("initial valid version does not start")
	}
	firstValid := zzverif.Bool("first save is valid")
	if firstValid {
		zzverif.FSFile("/app/main.glyph", zzVersionSource(1))
	} else {
		zzverif.FSFile("/app/main.glyph", "@ GET /v {\n  > (1 +\n}\n")
	}
	done := make(chan struct{}, 2)
	go func() { m.reload(); done <- struct{}{} }()
	if !zzverif.Symbolic() {
		time.Sleep(60 * time.Millisecond) // natively: let the first reload get going
	}
	zzverif.Yield()
	zzverif.FSFile("/app/main.glyph", zzVersionSource(2))
	go func() { m.reload(); done <- struct{}{} }()
	<-done
	<-done
	st, mk := zzDevGet()
	zzverif.Assert(st != -1, "after two overlapping reloads: nothing is listening")
	if zzverif.Symbolic() {
		zzverif.Assert(zzverif.ListeningCount(listenAddr(zzDevPort)) == 1, "after two overlapping reloads: more than one server listening on the port")
	}
	zzverif.Assert(st == 200 && mk == 102, "after two overlapping reloads: the version on disk is not the one served")
	zzverif.Reach("dev-overlap")
}

func VerifC19_DevTwin() {
	zzverif.FSReset()
	zzverif.FSFile("/app/main.glyph", zzVersionSource(0))
	m := &hotReloadManager{filePath: zzverif.FSPath("/app/main.glyph"), port: zzDevPort, liveReloadConns: make(map[*liveReloadConn]bool)}
	defer func() {
		if m.server != nil {
			m.server.Close()
		}
	}()
	m.startServer()
	zzverif.FSFile("/app/main.glyph", zzVersionSource(1))
	m.reload()
	_, mk := zzDevGet()
	zzverif.Assert(mk == 100, "twin")
	zzverif.Reach("twin")
}
