package main

// Interpreted goroutines, channels, select, and sync primitives.
// One interpreted goroutine runs at a time (baton passing); scheduling
// decisions are deterministic by default and become Choice forks when the
// harness enables schedule exploration (pre-emption bound P).

import (
	"fmt"
	"go/token"
	"go/types"

	"golang.org/x/tools/go/ssa"
)

type thread struct {
	id      int
	wake    chan struct{}
	done    bool
	waitOn  func() bool // nil = runnable
	what    string
	vc      vclock
	startAt string
}

type scheduler struct {
	i        *interpreter
	threads  []*thread
	cur      *thread
	abort    any // fatal condition raised in a non-main thread
	preempts int // pre-emptions used on this path
	delays   int // delays used on this path (delay-bounded mode)
	switches int
}

func newScheduler(i *interpreter) *scheduler {
	s := &scheduler{i: i}
	main := &thread{id: 0, wake: make(chan struct{}, 1)}
	main.vc = vclock{0: 1}
	s.threads = []*thread{main}
	s.cur = main
	return s
}

func (s *scheduler) enabled(t *thread) bool {
	return !t.done && (t.waitOn == nil || t.waitOn())
}

// spawn starts a new interpreted goroutine; the caller keeps running.
func (s *scheduler) spawn(fr *frame, pos token.Pos, fn value, args []value) {
	i := s.i
	t := &thread{id: len(s.threads), wake: make(chan struct{}, 1)}
	t.startAt = posString(i.prog, pos)
	// happens-before: go statement
	t.vc = s.cur.vc.copy()
	t.vc[t.id] = 1
	s.cur.vc.tick(s.cur.id)
	s.threads = append(s.threads, t)
	if len(s.threads) > 64 {
		panic(engineErr{"too many goroutines on one path"})
	}
	go func() {
		<-t.wake // wait for the baton
		defer func() {
			p := recover()
			t.done = true
			if p != nil {
				if _, ok := p.(threadKill); !ok {
					if isFatal(p) {
						s.abort = p
					} else {
						// uncaught panic in a goroutine crashes the process
						s.abort = goroutinePanic{p, t.startAt}
					}
				}
			}
			s.handoff(t)
		}()
		if s.abort != nil {
			panic(threadKill{})
		}
		call(i, &frame{i: i, thr: t, fn: nil}, pos, fn, args)
	}()
	s.point(fr, "go")
}

type threadKill struct{}
type goroutinePanic struct {
	p  any
	at string
}

// handoff passes the baton away from finished thread t.
func (s *scheduler) handoff(t *thread) {
	if s.abort != nil {
		// wake main so it can raise the abort; kill everything else lazily
		main := s.threads[0]
		if t != main {
			s.cur = main
			main.wake <- struct{}{}
		}
		return
	}
	next := s.pickNext(nil, t)
	if next == nil {
		// nothing runnable: if main is blocked this is a deadlock; wake
		// main so that its block() loop reports it.
		main := s.threads[0]
		if !main.done {
			s.cur = main
			main.wake <- struct{}{}
		}
		return
	}
	s.cur = next
	next.wake <- struct{}{}
}

// pickNext chooses an enabled thread other than 'except'.
func (s *scheduler) pickNext(fr *frame, except *thread) *thread {
	var en []*thread
	for _, t := range s.threads {
		if t != except && s.enabled(t) {
			en = append(en, t)
		}
	}
	if len(en) == 0 {
		return nil
	}
	if s.i.cfg.Delays > 0 {
		// delay-bounded scheduling (Emmi, Qadeer, Rakamaric 2011): the default is
		// round-robin from the thread that just stopped; skipping k threads costs k delays
		en = s.rrOrder(en, except)
		maxk := len(en) - 1
		if r := s.i.cfg.Delays - s.delays; r < maxk {
			maxk = r
		}
		k := 0
		if maxk > 0 && s.i.path != nil {
			k = s.i.choice(maxk+1, "delay")
		}
		s.delays += k
		return en[k]
	}
	if len(en) > 1 && s.i.cfg.Preempt > 0 && s.i.path != nil {
		k := s.i.choice(len(en), "sched")
		return en[k]
	}
	// deterministic default: main first after others have had their turn? use lowest id
	return en[0]
}

// rrOrder sorts the enabled threads in round-robin order starting after 'from'.
func (s *scheduler) rrOrder(en []*thread, from *thread) []*thread {
	base := 0
	if from != nil {
		base = from.id
	}
	n := len(s.threads)
	out := make([]*thread, 0, len(en))
	for d := 1; d <= n; d++ {
		id := (base + d) % n
		for _, t := range en {
			if t.id == id {
				out = append(out, t)
			}
		}
	}
	return out
}

// switchTo hands the baton to t and waits until this thread is resumed.
func (s *scheduler) switchTo(me, t *thread) {
	s.switches++
	s.cur = t
	t.wake <- struct{}{}
	<-me.wake
	if s.abort != nil {
		if me.id == 0 {
			a := s.abort
			panic(a)
		}
		panic(threadKill{})
	}
}

// block suspends the current thread until cond() holds.
func (s *scheduler) block(fr *frame, cond func() bool, what string) {
	me := fr.thr
	if me == nil {
		me = s.cur
	}
	for !cond() {
		me.waitOn = cond
		me.what = what
		next := s.pickNext(fr, me)
		if next == nil {
			me.waitOn = nil
			s.deadlock(fr, me, what)
		}
		s.switchTo(me, next)
		me.waitOn = nil
	}
}

func (s *scheduler) deadlock(fr *frame, me *thread, what string) {
	desc := fmt.Sprintf("all goroutines are asleep: goroutine %d blocked on %s", me.id, what)
	for _, t := range s.threads {
		if t != me && !t.done {
			desc += fmt.Sprintf("; goroutine %d (%s) blocked on %s", t.id, t.startAt, t.what)
		}
	}
	if me.id != 0 {
		// let main report it
		s.abort = deadlockAbort{desc}
		main := s.threads[0]
		s.cur = main
		main.wake <- struct{}{}
		<-me.wake
		panic(threadKill{})
	}
	panic(deadlockAbort{desc})
}

type deadlockAbort struct{ desc string }

// point is a scheduling point: under exploration the current thread may be
// pre-empted here.
func (s *scheduler) point(fr *frame, what string) {
	i := s.i
	if i.cfg.Delays > 0 {
		if i.path == nil || s.delays >= i.cfg.Delays || len(s.threads) < 2 {
			return
		}
		me := fr.thr
		if me == nil {
			me = s.cur
		}
		var en []*thread
		for _, t := range s.threads {
			if t != me && s.enabled(t) {
				en = append(en, t)
			}
		}
		if len(en) == 0 {
			return
		}
		en = s.rrOrder(en, me)
		maxk := len(en)
		if r := i.cfg.Delays - s.delays; r < maxk {
			maxk = r
		}
		k := i.choice(maxk+1, "delay@"+what)
		if k == 0 {
			return
		}
		s.delays += k
		s.switchTo(me, en[k-1])
		return
	}
	if i.cfg.Preempt == 0 || i.path == nil || s.preempts >= i.cfg.Preempt || len(s.threads) < 2 {
		return
	}
	me := fr.thr
	if me == nil {
		me = s.cur
	}
	var en []*thread
	for _, t := range s.threads {
		if t != me && s.enabled(t) {
			en = append(en, t)
		}
	}
	if len(en) == 0 {
		return
	}
	k := i.choice(len(en)+1, "preempt@"+what)
	if k == 0 {
		return
	}
	s.preempts++
	s.switchTo(me, en[k-1])
}

// yield lets every other enabled thread run until it blocks (used by
// time.Sleep, runtime.Gosched and at harness end).
func (s *scheduler) yield(fr *frame) {
	me := fr.thr
	if me == nil {
		me = s.cur
	}
	for rounds := 0; rounds < 1000; rounds++ {
		next := s.pickNext(fr, me)
		if next == nil {
			return
		}
		s.switchTo(me, next)
	}
}

// killAll terminates all non-main threads at the end of a path.
func (s *scheduler) killAll() {
	if s.abort == nil {
		s.abort = threadKill{}
	}
	for _, t := range s.threads[1:] {
		if !t.done {
			t.done = true
			select {
			case t.wake <- struct{}{}:
			default:
			}
		}
	}
}

// ---------------------------------------------------------------------
// vector clocks (happens-before)

type vclock map[int]int

func (v vclock) copy() vclock {
	c := make(vclock, len(v))
	for k, x := range v {
		c[k] = x
	}
	return c
}
func (v vclock) tick(id int) { v[id]++ }
func (v vclock) join(o vclock) {
	for k, x := range o {
		if x > v[k] {
			v[k] = x
		}
	}
}
func (v vclock) leq(o vclock) bool {
	for k, x := range v {
		if x > o[k] {
			return false
		}
	}
	return true
}

// release/acquire on a sync object
func (s *scheduler) release(fr *frame, obj *vclock) {
	t := s.thr(fr)
	if *obj == nil {
		*obj = vclock{}
	}
	(*obj).join(t.vc)
	t.vc.tick(t.id)
}
func (s *scheduler) acquire(fr *frame, obj *vclock) {
	t := s.thr(fr)
	if *obj != nil {
		t.vc.join(*obj)
	}
}
func (s *scheduler) thr(fr *frame) *thread {
	if fr != nil && fr.thr != nil {
		return fr.thr
	}
	return s.cur
}

// shadow state for the race monitor
type shadow struct {
	wT  int // last writer thread
	wC  int // its clock
	wAt string
	rd  map[int]int // reader thread -> clock
	rAt map[int]string
}

func (i *interpreter) raceCheck(fr *frame, key any, write bool, what string) {
	s := i.sched
	if s == nil || len(s.threads) < 2 || !i.cfg.RaceMonitor || i.path == nil {
		return
	}
	t := s.thr(fr)
	tab, _ := i.side["shadow"].(map[any]*shadow)
	if tab == nil {
		tab = map[any]*shadow{}
		i.side["shadow"] = tab
	}
	sh := tab[key]
	if sh == nil {
		sh = &shadow{wT: -1}
		tab[key] = sh
	}
	at := ""
	if fr != nil && fr.fn != nil {
		at = fr.fn.String()
	}
	if sh.wT >= 0 && sh.wT != t.id && sh.wC > t.vc[sh.wT] {
		i.reportRace(fr, what, sh.wAt, at, "write", pick(write, "write", "read"))
	}
	if write {
		for rt, rc := range sh.rd {
			if rt != t.id && rc > t.vc[rt] {
				i.reportRace(fr, what, sh.rAt[rt], at, "read", "write")
			}
		}
		sh.wT, sh.wC, sh.wAt = t.id, t.vc[t.id], at
		sh.rd, sh.rAt = nil, nil
	} else {
		if sh.rd == nil {
			sh.rd = map[int]int{}
			sh.rAt = map[int]string{}
		}
		sh.rd[t.id] = t.vc[t.id]
		sh.rAt[t.id] = at
	}
}

func (i *interpreter) reportRace(fr *frame, what, at1, at2, k1, k2 string) {
	a, b := at1, at2
	if b < a {
		a, b = b, a
	}
	i.violationHere(fr, "race:"+what+":"+a+"|"+b, fmt.Sprintf("data race on %s: %s in %s unordered with %s in %s", what, k1, at1, k2, at2))
}

func memAccess(fr *frame, p *value, write bool) {
	i := fr.i
	if i.cfg == nil || !i.cfg.RaceMonitor || i.sched == nil || len(i.sched.threads) < 2 {
		return
	}
	i.raceCheck(fr, p, write, "memory")
}

func mapAccess(fr *frame, m *omap, write bool) {
	i := fr.i
	if i.cfg == nil || !i.cfg.RaceMonitor || i.sched == nil || len(i.sched.threads) < 2 || m == nil {
		return
	}
	i.raceCheck(fr, m, write, "map")
}

// ---------------------------------------------------------------------
// channels

type waiter struct {
	thr   *thread
	sel   *selState
	idx   int   // case index within select
	val   value // value to send / received value
	ok    bool  // for receivers: value came from a send (not close)
	vc    vclock
}

type selState struct {
	fired bool
	idx   int
	w     *waiter
}

type chanv struct {
	cap    int
	buf    []value
	bufvc  []vclock
	closed bool
	recvq  []*waiter
	sendq  []*waiter
	vc     vclock // close clock
}

func newChan(capacity int) *chanv { return &chanv{cap: capacity} }

func (c *chanv) length() int {
	if c == nil {
		return 0
	}
	return len(c.buf)
}

func firstLive(q *[]*waiter) *waiter {
	for len(*q) > 0 {
		w := (*q)[0]
		if w.sel.fired {
			*q = (*q)[1:]
			continue
		}
		return w
	}
	return nil
}

func (c *chanv) canSend() bool {
	return c.closed || firstLive(&c.recvq) != nil || len(c.buf) < c.cap
}
func (c *chanv) canRecv() bool {
	return len(c.buf) > 0 || firstLive(&c.sendq) != nil || c.closed
}

// trySend performs a send if possible now. Panics if closed.
func trySend(fr *frame, c *chanv, v value) bool {
	s := fr.i.sched
	if c.closed {
		panic(targetPanic{iface{fr.i.runtimeErrorString, "send on closed channel"}})
	}
	me := s.thr(fr)
	if w := firstLive(&c.recvq); w != nil {
		c.recvq = c.recvq[1:]
		w.sel.fired, w.sel.idx, w.sel.w = true, w.idx, w
		w.val, w.ok = v, true
		w.vc = me.vc.copy()
		me.vc.tick(me.id)
		return true
	}
	if len(c.buf) < c.cap {
		c.buf = append(c.buf, v)
		c.bufvc = append(c.bufvc, me.vc.copy())
		me.vc.tick(me.id)
		return true
	}
	return false
}

// tryRecv performs a receive if possible now.
func tryRecv(fr *frame, c *chanv) (v value, ok bool, done bool) {
	s := fr.i.sched
	me := s.thr(fr)
	if len(c.buf) > 0 {
		v = c.buf[0]
		me.vc.join(c.bufvc[0])
		c.buf = c.buf[1:]
		c.bufvc = c.bufvc[1:]
		// a blocked sender can now move its value into the buffer
		if w := firstLive(&c.sendq); w != nil {
			c.sendq = c.sendq[1:]
			w.sel.fired, w.sel.idx, w.sel.w = true, w.idx, w
			c.buf = append(c.buf, w.val)
			c.bufvc = append(c.bufvc, w.vc)
		}
		return v, true, true
	}
	if w := firstLive(&c.sendq); w != nil {
		c.sendq = c.sendq[1:]
		w.sel.fired, w.sel.idx, w.sel.w = true, w.idx, w
		me.vc.join(w.vc)
		return w.val, true, true
	}
	if c.closed {
		me.vc.join(c.vc)
		return nil, false, true
	}
	return nil, false, false
}

func chanSend(fr *frame, c *chanv, v value) {
	s := fr.i.sched
	s.point(fr, "chan send")
	if c == nil {
		s.block(fr, func() bool { return false }, "send on nil channel")
	}
	if trySend(fr, c, v) {
		return
	}
	me := s.thr(fr)
	st := &selState{}
	w := &waiter{thr: me, sel: st, val: v, vc: me.vc.copy()}
	me.vc.tick(me.id)
	c.sendq = append(c.sendq, w)
	s.block(fr, func() bool { return st.fired || c.closed }, "chan send")
	if !st.fired {
		st.fired = true
		panic(targetPanic{iface{fr.i.runtimeErrorString, "send on closed channel"}})
	}
}

func chanRecv(fr *frame, c *chanv) (value, bool) {
	s := fr.i.sched
	s.point(fr, "chan receive")
	if c == nil {
		s.block(fr, func() bool { return false }, "receive from nil channel")
	}
	if v, ok, done := tryRecv(fr, c); done {
		return v, ok
	}
	me := s.thr(fr)
	st := &selState{}
	w := &waiter{thr: me, sel: st}
	c.recvq = append(c.recvq, w)
	s.block(fr, func() bool { return st.fired || c.closed }, "chan receive")
	if st.fired {
		if w.vc != nil {
			me.vc.join(w.vc)
		}
		return w.val, w.ok
	}
	st.fired = true
	me.vc.join(c.vc)
	return nil, false
}

func chanClose(fr *frame, c *chanv) {
	s := fr.i.sched
	if c == nil {
		panic(targetPanic{iface{fr.i.runtimeErrorString, "close of nil channel"}})
	}
	if c.closed {
		panic(targetPanic{iface{fr.i.runtimeErrorString, "close of closed channel"}})
	}
	me := s.thr(fr)
	c.closed = true
	c.vc = me.vc.copy()
	me.vc.tick(me.id)
	fr.i.onUndo(func() { c.closed = false })
	s.point(fr, "close")
}

func doSelect(fr *frame, instr *ssa.Select) value {
	i := fr.i
	s := i.sched
	s.point(fr, "select")
	n := len(instr.States)
	result := func(chosen int, recv value, recvOk bool) value {
		r := tuple{chosen, recvOk}
		for k, st := range instr.States {
			if st.Dir == types.RecvOnly {
				var v value
				if k == chosen && recvOk {
					v = recv
				} else {
					v = zero(st.Chan.Type().Underlying().(*types.Chan).Elem())
				}
				r = append(r, v)
			}
		}
		return r
	}
	chans := make([]*chanv, n)
	sends := make([]value, n)
	for k, st := range instr.States {
		chans[k], _ = fr.get(st.Chan).(*chanv)
		if st.Send != nil {
			sends[k] = fr.get(st.Send)
		}
	}
	ready := func() []int {
		var r []int
		for k, st := range instr.States {
			c := chans[k]
			if c == nil {
				continue
			}
			if st.Dir == types.RecvOnly {
				if c.canRecv() {
					r = append(r, k)
				}
			} else if c.canSend() {
				r = append(r, k)
			}
		}
		return r
	}
	fire := func(k int) value {
		st := instr.States[k]
		if st.Dir == types.RecvOnly {
			v, ok, _ := tryRecv(fr, chans[k])
			return result(k, v, ok)
		}
		if !trySend(fr, chans[k], sends[k]) {
			panic(engineErr{"select: send became impossible"})
		}
		return result(k, nil, false)
	}
	if r := ready(); len(r) > 0 {
		k := r[0]
		if len(r) > 1 && (i.cfg.Preempt > 0 || i.cfg.Delays > 0) && i.path != nil {
			k = r[i.choice(len(r), "select")]
		}
		return fire(k)
	}
	if !instr.Blocking {
		return result(-1, nil, false)
	}
	// register on all queues
	me := s.thr(fr)
	st := &selState{}
	for k, sst := range instr.States {
		c := chans[k]
		if c == nil {
			continue
		}
		w := &waiter{thr: me, sel: st, idx: k}
		if sst.Dir == types.RecvOnly {
			c.recvq = append(c.recvq, w)
		} else {
			w.val = sends[k]
			w.vc = me.vc.copy()
			c.sendq = append(c.sendq, w)
		}
	}
	anyClosed := func() int {
		for k := range instr.States {
			if chans[k] != nil && chans[k].closed {
				return k
			}
		}
		return -1
	}
	s.block(fr, func() bool { return st.fired || anyClosed() >= 0 }, "select")
	if st.fired {
		k := st.idx
		if instr.States[k].Dir == types.RecvOnly {
			if st.w.vc != nil {
				me.vc.join(st.w.vc)
			}
			return result(k, st.w.val, st.w.ok)
		}
		return result(k, nil, false)
	}
	st.fired = true
	k := anyClosed()
	if instr.States[k].Dir == types.RecvOnly {
		me.vc.join(chans[k].vc)
		return result(k, nil, false)
	}
	panic(targetPanic{iface{i.runtimeErrorString, "send on closed channel"}})
}

// ---------------------------------------------------------------------
// sync primitives (state kept in per-path side tables keyed by address)

type mutexState struct {
	locked  bool
	owner   int
	readers int
	vc      vclock
	rvc     vclock
}

func (i *interpreter) mutexOf(p *value) *mutexState {
	tab, _ := i.side["mutex"].(map[*value]*mutexState)
	if tab == nil {
		tab = map[*value]*mutexState{}
		i.side["mutex"] = tab
	}
	m := tab[p]
	if m == nil {
		m = &mutexState{}
		tab[p] = m
	}
	return m
}

func fatalThrow(fr *frame, msg string) {
	// "fatal error:" conditions of the Go runtime cannot be recovered
	fr.i.violationHere(fr, "fatal:"+msg, "fatal error: "+msg)
	panic(pathAbort{"violation", msg})
}

func mutexLock(fr *frame, p *value) {
	i := fr.i
	s := i.sched
	m := i.mutexOf(p)
	s.point(fr, "Lock")
	me := s.thr(fr)
	s.block(fr, func() bool { return !m.locked && m.readers == 0 }, "sync.Mutex.Lock")
	m.locked = true
	m.owner = me.id
	s.acquire(fr, &m.vc)
	s.acquire(fr, &m.rvc)
	i.lockHeld(me, p, true)
}

func mutexTryLock(fr *frame, p *value) bool {
	i := fr.i
	m := i.mutexOf(p)
	if m.locked || m.readers > 0 {
		return false
	}
	m.locked = true
	m.owner = i.sched.thr(fr).id
	i.sched.acquire(fr, &m.vc)
	i.lockHeld(i.sched.thr(fr), p, true)
	return true
}

func mutexUnlock(fr *frame, p *value) {
	i := fr.i
	m := i.mutexOf(p)
	if !m.locked {
		fatalThrow(fr, "sync: unlock of unlocked mutex")
	}
	i.sched.release(fr, &m.vc)
	m.locked = false
	i.lockHeld(i.sched.thr(fr), p, false)
	// no scheduling point after a release: switching here is equivalent (up to
	// plain accesses, which the race monitor covers) to switching at this
	// thread's next visible operation
}

func rwRLock(fr *frame, p *value) {
	i := fr.i
	s := i.sched
	m := i.mutexOf(p)
	s.point(fr, "RLock")
	s.block(fr, func() bool { return !m.locked }, "sync.RWMutex.RLock")
	m.readers++
	s.acquire(fr, &m.vc)
	i.rlockHeld(s.thr(fr), p, 1)
}

func rwRUnlock(fr *frame, p *value) {
	i := fr.i
	m := i.mutexOf(p)
	if m.readers <= 0 {
		fatalThrow(fr, "sync: RUnlock of unlocked RWMutex")
	}
	i.sched.release(fr, &m.rvc)
	m.readers--
	i.rlockHeld(i.sched.thr(fr), p, -1)
}

// lock-set tracking for the lock-discipline monitor
func (i *interpreter) lockHeld(t *thread, p *value, held bool) {
	tab, _ := i.side["held"].(map[int]map[*value]int)
	if tab == nil {
		tab = map[int]map[*value]int{}
		i.side["held"] = tab
	}
	if tab[t.id] == nil {
		tab[t.id] = map[*value]int{}
	}
	if held {
		tab[t.id][p] = 2
	} else {
		delete(tab[t.id], p)
	}
}

func (i *interpreter) rlockHeld(t *thread, p *value, d int) {
	tab, _ := i.side["rheld"].(map[int]map[*value]int)
	if tab == nil {
		tab = map[int]map[*value]int{}
		i.side["rheld"] = tab
	}
	if tab[t.id] == nil {
		tab[t.id] = map[*value]int{}
	}
	tab[t.id][p] += d
}

// holds reports whether thread t holds mutex p (2 = write, 1 = read, 0 = no)
func (i *interpreter) holds(t *thread, p *value) int {
	if tab, _ := i.side["held"].(map[int]map[*value]int); tab != nil {
		if tab[t.id][p] == 2 {
			return 2
		}
	}
	if tab, _ := i.side["rheld"].(map[int]map[*value]int); tab != nil {
		if tab[t.id][p] > 0 {
			return 1
		}
	}
	return 0
}

type wgState struct {
	n  int64
	vc vclock
}

func (i *interpreter) wgOf(p *value) *wgState {
	tab, _ := i.side["wg"].(map[*value]*wgState)
	if tab == nil {
		tab = map[*value]*wgState{}
		i.side["wg"] = tab
	}
	w := tab[p]
	if w == nil {
		w = &wgState{}
		tab[p] = w
	}
	return w
}
