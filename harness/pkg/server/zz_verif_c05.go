package server

// C05 — requests reach exactly the declared handler (router part).

import (
	"github.com/glyphlang/glyph/internal/zzverif"
)

// pattern segments offered to the table generator
var zzSegMenu = []string{"a", "b", ":p", ":q"}

// zzSpecSplit is the documented normalisation of a request path / pattern:
// surrounding blanks trimmed, leading slash implied, empty segments dropped.
func zzSpecSplit(s string) []string {
	for len(s) > 0 && (s[0] == ' ' || s[0] == '\t' || s[0] == '\n' || s[0] == '\r') {
		s = s[1:]
	}
	for len(s) > 0 && (s[len(s)-1] == ' ' || s[len(s)-1] == '\t' || s[len(s)-1] == '\n' || s[len(s)-1] == '\r') {
		s = s[:len(s)-1]
	}
	var segs []string
	start := 0
	for i := 0; i <= len(s); i++ {
		if i == len(s) || s[i] == '/' {
			if i > start {
				segs = append(segs, s[start:i])
			}
			start = i + 1
		}
	}
	return segs
}

type zzDecl struct {
	method HTTPMethod
	segs   []string // pattern segments
	route  *Route
}

// zzSpecMatch: the declarative rule of the property.
func zzSpecMatch(decls []zzDecl, method HTTPMethod, req []string) (winner int, binds map[string]string) {
	winner = -1
	bestParams := 0
	for i, d := range decls {
		if d.method != method || len(d.segs) != len(req) {
			continue
		}
		ok := true
		nparams := 0
		for k, s := range d.segs {
			if s[0] == ':' {
				nparams++
			} else if s != req[k] {
				ok = false
				break
			}
		}
		if !ok {
			continue
		}
		if winner < 0 || nparams < bestParams {
			winner, bestParams = i, nparams
		}
	}
	if winner >= 0 {
		binds = map[string]string{}
		for k, s := range decls[winner].segs {
			if s[0] == ':' {
				binds[s[1:]] = req[k]
			}
		}
	}
	return
}

// zzLetter returns a one-byte symbolic static segment from {a,b,c}.
func zzLetter(name string) string {
	return zzverif.StringFrom(name, 1, "abc")
}

// Matching logic: symbolic static segments, every table shape and order.
func zzRouterHarness(nroutes, maxSegs int) {
	methods := []HTTPMethod{GET, POST}
	pnames := []string{":p", ":q", ":r"}
	r := NewRouter()
	var decls []zzDecl
	for i := 0; i < nroutes; i++ {
		m := methods[zzverif.Choice("method", 2)]
		n := 1 + zzverif.Choice("nsegs", maxSegs)
		pat := ""
		var segs []string
		for k := 0; k < n; k++ {
			var s string
			if zzverif.Choice("isParam", 2) == 1 {
				s = pnames[k]
			} else {
				s = zzLetter("static")
			}
			pat += "/" + s
			segs = append(segs, s)
		}
		route := &Route{Method: m, Path: pat}
		if err := r.RegisterRoute(route); err != nil {
			zzverif.Fail("register-rejects-valid-pattern")
		}
		decls = append(decls, zzDecl{m, segs, route})
	}
	reqMethod := methods[zzverif.Choice("reqMethod", 2)]
	nreq := 1 + zzverif.Choice("reqSegs", maxSegs)
	path := ""
	var req []string
	for k := 0; k < nreq; k++ {
		s := zzLetter("reqseg")
		path += "/" + s
		req = append(req, s)
	}
	got, params, err := r.Match(reqMethod, path)
	want, binds := zzSpecMatch(decls, reqMethod, req)
	zzCompare(decls, got, params, err, want, binds)
	zzverif.Reach("router")
}

func zzCompare(decls []zzDecl, got *Route, params map[string]string, err error, want int, binds map[string]string) {
	if want < 0 {
		zzverif.Assert(err != nil && got == nil, "match-found-where-none-declared")
		return
	}
	zzverif.Assert(err == nil && got != nil, "declared-route-not-matched")
	if err == nil && got != nil {
		zzverif.Assert(got == decls[want].route, "wrong-route-wins")
		zzverif.Assert(len(params) == len(binds), "param-count-differs")
		for k, v := range binds {
			pv, ok := params[k]
			zzverif.Assert(ok && pv == v, "param-bound-to-wrong-segment")
		}
	}
}

// Raw request bytes against a fixed table: normalisation and binding.
func zzRouterRawPath(pathLen int) {
	r := NewRouter()
	pats := [][]string{{"a", ":p"}, {"a", "b"}, {":q"}, {":p", "b", ":q"}}
	var decls []zzDecl
	for _, segs := range pats {
		pat := ""
		for _, s := range segs {
			pat += "/" + s
		}
		route := &Route{Method: GET, Path: pat}
		r.RegisterRoute(route)
		decls = append(decls, zzDecl{GET, segs, route})
	}
	path := zzverif.StringFrom("path", pathLen, "/ab :%")
	got, params, err := r.Match(GET, path)
	want, binds := zzSpecMatch(decls, GET, zzSpecSplit(path))
	zzCompare(decls, got, params, err, want, binds)
	zzverif.Reach("rawpath")
}

func VerifC05_Router2x2() { zzRouterHarness(2, 2) }
func VerifC05_Router3x2() { zzRouterHarness(3, 2) }
func VerifC05_Router2x3() { zzRouterHarness(2, 3) }
func VerifC05_RawPath4()  { zzRouterRawPath(4) }
func VerifC05_RawPath6()  { zzRouterRawPath(6) }

// twin: the first-match rule (the regression the best-match scan guards against) must be refuted
func VerifC05_Twin() {
	r := NewRouter()
	r1 := &Route{Method: GET, Path: "/a/:p"}
	r2 := &Route{Method: GET, Path: "/a/b"}
	r.RegisterRoute(r1)
	r.RegisterRoute(r2)
	path := zzverif.String("path", 4)
	zzverif.Assume(path[0] == '/' && path[2] == '/')
	got, _, err := r.Match(GET, path)
	zzverif.Assert(err != nil || got == r1, "twin-must-fail")
	zzverif.Reach("twin")
}
