package parser

// C10 — every byte sequence offered as source text ends in tokens/AST or a diagnostic.

import (
	"github.com/glyphlang/glyph/internal/zzverif"
)

func zzLexParse(src string) {
	zzverif.Obligation("Tokenize and Parse return")
	toks, err := NewLexer(src).Tokenize()
	if err != nil {
		return
	}
	zzverif.Assert(len(toks) > 0 && toks[len(toks)-1].Type == EOF, "token-stream-not-terminated-by-EOF")
	p := NewParserWithSource(toks, src)
	mod, perr := p.Parse()
	zzverif.Assert((mod == nil) != (perr == nil), "parse-returns-both-or-neither")
}

// every byte string of length n
func VerifC10_SourceBytes2() { zzLexParse(zzverif.String("src", 2)); zzverif.Reach("src") }
func VerifC10_SourceBytes3() { zzLexParse(zzverif.String("src", 3)); zzverif.Reach("src") }

// longer strings over the delimiter/quote/escape alphabet
const zzDelims = "\n {}()[]\"'\\#/@:$>a1.,=-<!&|?*+%"

func VerifC10_SourceDelims4() { zzLexParse(zzverif.StringFrom("src", 4, zzDelims)); zzverif.Reach("src") }
func VerifC10_SourceDelims5() { zzLexParse(zzverif.StringFrom("src", 5, zzDelims)); zzverif.Reach("src") }

// a route header followed by symbolic body bytes
func VerifC10_RouteBody2() {
	zzLexParse("@ GET /x {\n" + zzverif.StringFrom("body", 2, zzDelims) + "\n}\n")
	zzverif.Reach("src")
}
func VerifC10_RouteBody3() {
	zzLexParse("@ GET /x {\n" + zzverif.StringFrom("body", 3, zzDelims) + "\n}\n")
	zzverif.Reach("src")
}
func VerifC10_RouteBody4() {
	zzLexParse("@ GET /x {\n" + zzverif.StringFrom("body", 4, zzDelims) + "\n}\n")
	zzverif.Reach("src")
}

// the end of the input inside a string escape: "\x4", "\u00e", "\" ...
func VerifC10_EscapeTail() {
	zzLexParse("@ GET /x {\n  $ s = \"a\\" + zzverif.StringFrom("tail", 4, "xu01aFg\"\\\n"))
	zzverif.Reach("src")
}
