package main

// Models of fmt, errors, time, sort, context bits.

import (
	"fmt"
	"go/token"
	"go/types"
	"strings"

	"golang.org/x/tools/go/ssa"
)

// ---------------------------------------------------------------------
// fmt

// printable converts an interface-typed argument to something the native fmt
// can print, or returns (nil,false) when the value is symbolic/composite.
func (i *interpreter) printable(fr *frame, arg value, verb byte) (any, value, bool) {
	itf, ok := arg.(iface)
	if !ok {
		return nil, nil, false
	}
	if itf.t == nil {
		return nil, nil, true // prints <nil>
	}
	// error / Stringer
	if verb == 'v' || verb == 's' || verb == 'q' || verb == 'w' {
		for _, mname := range []string{"Error", "String"} {
			if m := i.findMethod(itf.t, mname); m != nil {
				sig := m.Signature
				if sig.Params().Len() == 0 && sig.Results().Len() == 1 && basicOf(sig.Results().At(0).Type()) != nil &&
					basicOf(sig.Results().At(0).Type()).Kind() == types.String {
					if p, isPtr := itf.v.(*value); isPtr && p == nil {
						return "<nil>", nil, true
					}
					r := call(i, fr, fr.callpos, m, []value{itf.v})
					switch r := r.(type) {
					case string:
						return r, nil, true
					default:
						return nil, r, true // symbolic string piece
					}
				}
			}
		}
	}
	switch v := itf.v.(type) {
	case bool, int, int8, int16, int32, int64, uint, uint8, uint16, uint32, uint64, uintptr, float32, float64, string, complex64, complex128:
		return v, nil, true
	case symstr:
		return nil, v, true
	case *opaqueStr:
		return nil, v, true
	case *sym:
		return nil, i.newOpaque("formatted symbolic scalar"), true
	case []value:
		// []string / []int of concrete scalars print natively
		if b, ok := itf.t.Underlying().(*types.Slice); ok && allConcrete([]value{v}) {
			if eb := basicOf(b.Elem()); eb != nil {
				out := make([]any, len(v))
				for k := range v {
					out[k] = v[k]
				}
				if eb.Kind() == types.String {
					return goStrSlice(v), nil, true
				}
				if eb.Kind() == types.Uint8 && (verb == 's' || verb == 'q' || verb == 'x') {
					return goBytes(v), nil, true
				}
				return out, nil, true
			}
		}
	}
	return nil, i.newOpaque("formatted " + itf.t.String()), true
}

func (i *interpreter) findMethod(t types.Type, name string) *ssa.Function {
	ms := i.prog.MethodSets.MethodSet(t)
	for k := 0; k < ms.Len(); k++ {
		sel := ms.At(k)
		if sel.Obj().Name() == name {
			return i.prog.MethodValue(sel)
		}
	}
	return nil
}

// sprintf implements the formatting verbs on possibly symbolic arguments.
// The result is a Go string, a symstr, or an *opaqueStr.
func (i *interpreter) sprintf(fr *frame, format string, args []value) (value, value) {
	var out []value
	opaque := false
	var wrapped value
	argi := 0
	emit := func(s string) { out = append(out, strBytes(s)...) }
	for k := 0; k < len(format); k++ {
		c := format[k]
		if c != '%' {
			out = append(out, c)
			continue
		}
		j := k + 1
		for j < len(format) && strings.IndexByte("+-# 0123456789.*[]", format[j]) >= 0 {
			j++
		}
		if j >= len(format) {
			emit("%!(NOVERB)")
			break
		}
		verb := format[j]
		spec := format[k : j+1]
		k = j
		if verb == '%' {
			out = append(out, byte('%'))
			continue
		}
		if strings.ContainsAny(spec, "*[") {
			opaque = true
			argi++
			continue
		}
		if argi >= len(args) {
			emit("%!" + string(verb) + "(MISSING)")
			continue
		}
		arg := args[argi]
		argi++
		if verb == 'w' {
			wrapped = arg
			spec = spec[:len(spec)-1] + "v"
		}
		if verb == 'T' {
			if itf, ok := arg.(iface); ok && itf.t != nil {
				emit(itf.t.String())
			} else {
				emit("<nil>")
			}
			continue
		}
		if verb == 'c' && spec == "%c" {
			if itf, ok := arg.(iface); ok {
				if sv, ok := itf.v.(*sym); ok && sv.t.sort.k == sBV {
					ts := i.ts
					w := sv.t.sort.w
					if fr.cond(boolVal(ts.bvCmp("bvult", sv.t, ts.BV(0x80, w)))) {
						out = append(out, value(&sym{ts.Resize(sv.t, 8, false)}))
					} else {
						r := rune(fr.concretize(sv, "%c"))
						emit(string(r))
					}
					continue
				}
			}
		}
		nat, piece, ok := i.printable(fr, arg, verb)
		if !ok {
			opaque = true
			continue
		}
		if piece != nil {
			switch p := piece.(type) {
			case symstr:
				if spec == "%s" || spec == "%v" {
					out = append(out, []value(p)...)
				} else {
					opaque = true
				}
			default:
				opaque = true
			}
			continue
		}
		emit(fmt.Sprintf(spec, nat))
	}
	if argi < len(args) {
		opaque = true // %!(EXTRA ...)
	}
	if opaque {
		return i.newOpaque("Sprintf(" + format + ")"), wrapped
	}
	return mkstr(out), wrapped
}

func (i *interpreter) sprint(fr *frame, args []value, ln bool) value {
	var out []value
	for k, arg := range args {
		nat, piece, ok := i.printable(fr, arg, 'v')
		if !ok {
			return i.newOpaque("Sprint")
		}
		if ln && k > 0 {
			out = append(out, byte(' '))
		}
		if piece != nil {
			if p, isS := piece.(symstr); isS {
				out = append(out, []value(p)...)
				continue
			}
			return i.newOpaque("Sprint")
		}
		if !ln && k > 0 {
			// Sprint adds spaces between operands when neither is a string
			_, s1 := nat.(string)
			pn, _, _ := i.printable(fr, args[k-1], 'v')
			_, s0 := pn.(string)
			if !s0 && !s1 {
				out = append(out, byte(' '))
			}
		}
		out = append(out, strBytes(fmt.Sprint(nat))...)
	}
	if ln {
		out = append(out, byte('\n'))
	}
	return mkstr(out)
}

func (i *interpreter) namedType(pkg, name string) types.Type {
	p := i.prog.ImportedPackage(pkg)
	if p == nil {
		panic(engineErr{"package not loaded: " + pkg})
	}
	t := p.Type(name)
	if t == nil {
		panic(engineErr{"type not found: " + pkg + "." + name})
	}
	return t.Object().Type()
}

func (i *interpreter) newError(msg value, wrapped value) value {
	if wrapped != nil {
		if w, ok := wrapped.(iface); ok && w.t != nil {
			t := i.namedType("fmt", "wrapError")
			var cell value = structure{msg, w}
			return iface{t: types.NewPointer(t), v: &cell}
		}
	}
	t := i.namedType("errors", "errorString")
	var cell value = structure{msg}
	return iface{t: types.NewPointer(t), v: &cell}
}

func variadic(a value) []value {
	if a == nil {
		return nil
	}
	return a.([]value)
}

func init() {
	for name, f := range map[string]externalFn{
		"fmt.Sprintf": func(fr *frame, a []value) value {
			s, _ := fr.i.sprintf(fr, fmtArg(fr, a[0]), variadic(a[1]))
			return s
		},
		"fmt.Errorf": func(fr *frame, a []value) value {
			s, w := fr.i.sprintf(fr, fmtArg(fr, a[0]), variadic(a[1]))
			return fr.i.newError(s, w)
		},
		"fmt.Sprint":   func(fr *frame, a []value) value { return fr.i.sprint(fr, variadic(a[0]), false) },
		"fmt.Sprintln": func(fr *frame, a []value) value { return fr.i.sprint(fr, variadic(a[0]), true) },
		"fmt.Printf":   func(fr *frame, a []value) value { return tuple{0, iface{}} },
		"fmt.Println":  func(fr *frame, a []value) value { return tuple{0, iface{}} },
		"fmt.Print":    func(fr *frame, a []value) value { return tuple{0, iface{}} },
		"fmt.Fprintf": func(fr *frame, a []value) value {
			s, _ := fr.i.sprintf(fr, fmtArg(fr, a[1]), variadic(a[2]))
			return fr.i.writeTo(fr, a[0], s)
		},
		"fmt.Fprintln": func(fr *frame, a []value) value { return fr.i.writeTo(fr, a[0], fr.i.sprint(fr, variadic(a[1]), true)) },
		"fmt.Fprint":   func(fr *frame, a []value) value { return fr.i.writeTo(fr, a[0], fr.i.sprint(fr, variadic(a[1]), false)) },

		"errors.Is": func(fr *frame, a []value) value { return fr.i.errorsIs(fr, a[0].(iface), a[1].(iface), 0) },
		"errors.As": func(fr *frame, a []value) value { return fr.i.errorsAs(fr, a[0].(iface), a[1].(iface), 0) },

		"sort.Slice":       sortSlice,
		"sort.SliceStable": sortSlice,

		// ---- time ------------------------------------------------------------
		"time.Now": func(fr *frame, a []value) value { return fr.i.timeNow(fr) },
		"time.Since": func(fr *frame, a []value) value {
			t := a[0].(structure)
			if w, ok := t[0].(uint64); ok && w&(1<<63) != 0 {
				now := fr.i.timeNow(fr).(structure)
				return binop(fr, tokSUB, types.Typ[types.Int64], now[1], t[1])
			}
			return fallThrough
		},
		"time.Until": func(fr *frame, a []value) value {
			t := a[0].(structure)
			if w, ok := t[0].(uint64); ok && w&(1<<63) != 0 {
				now := fr.i.timeNow(fr).(structure)
				return binop(fr, tokSUB, types.Typ[types.Int64], t[1], now[1])
			}
			return fallThrough
		},
		"(time.Time).Unix": func(fr *frame, a []value) value {
			t := a[0].(structure)
			if w, ok := t[0].(uint64); ok && w == wallConst {
				secs := binop(fr, token.QUO, types.Typ[types.Int64], t[1], int64(1000000000))
				return binop(fr, tokADD, types.Typ[types.Int64], secs, clockEpochUnix)
			}
			return fallThrough
		},
		"(time.Time).UnixNano": func(fr *frame, a []value) value {
			t := a[0].(structure)
			if w, ok := t[0].(uint64); ok && w == wallConst {
				return binop(fr, tokADD, types.Typ[types.Int64], t[1], clockEpochUnix*1000000000)
			}
			return fallThrough
		},
		"(time.Time).Add": func(fr *frame, a []value) value {
			t := a[0].(structure)
			if w, ok := t[0].(uint64); ok && w&(1<<63) != 0 {
				return structure{t[0], binop(fr, tokADD, types.Typ[types.Int64], t[1], a[1]), t[2]}
			}
			if allConcrete(a[1:]) {
				return fallThrough
			}
			panic(engineErr{"UNSUPPORTED Time.Add of a symbolic duration on a non-monotonic time"})
		},
		"(time.Time).Format":  func(fr *frame, a []value) value { return "2021-01-01T00:00:00Z" },
		"(time.Time).String":  func(fr *frame, a []value) value { return "2021-01-01 00:00:00 +0000 UTC" },
		"(time.Time).UTC":     func(fr *frame, a []value) value { return a[0] },
		"(time.Time).Local":   func(fr *frame, a []value) value { return a[0] },
		"(time.Time).MarshalJSON": func(fr *frame, a []value) value {
			return tuple{valBytes([]byte("\"2021-01-01T00:00:00Z\"")), iface{}}
		},
		"time.Sleep": func(fr *frame, a []value) value {
			fr.i.clockAdvance(fr, a[0])
			fr.i.sched.yield(fr)
			return nil
		},
		"time.After": func(fr *frame, a []value) value { return newChan(1) },
		"time.Tick":  func(fr *frame, a []value) value { return newChan(1) },
		"time.NewTimer": func(fr *frame, a []value) value {
			return fr.i.newTimerLike("Timer")
		},
		"time.NewTicker": func(fr *frame, a []value) value {
			return fr.i.newTimerLike("Ticker")
		},
		"time.AfterFunc": func(fr *frame, a []value) value {
			fr.i.note("time.AfterFunc callbacks never fire")
			return fr.i.newTimerLike("Timer")
		},
		"(*time.Timer).Stop":   func(fr *frame, a []value) value { return true },
		"(*time.Timer).Reset":  func(fr *frame, a []value) value { return true },
		"(*time.Ticker).Stop":  nop,
		"(*time.Ticker).Reset": nop,
		"time.runtimeNano":     func(fr *frame, a []value) value { return int64(1 << 40) },
		"time.LoadLocation": func(fr *frame, a []value) value {
			return tuple{(*value)(nil), iface{}}
		},
	} {
		externals[name] = f
	}
}

const (
	tokADD = token.ADD
	tokSUB = token.SUB
)

func fmtArg(fr *frame, v value) string {
	s, ok := v.(string)
	if !ok {
		panic(engineErr{"UNSUPPORTED symbolic format string"})
	}
	return s
}

// writeTo models io.Writer sinks used by Fprintf: *bytes.Buffer and
// *strings.Builder get the text, anything else swallows it.
func (i *interpreter) writeTo(fr *frame, w value, s value) value {
	itf, ok := w.(iface)
	if ok && itf.t != nil {
		ts := itf.t.String()
		if ts == "*strings.Builder" || ts == "*bytes.Buffer" {
			if m := i.findMethod(itf.t, "WriteString"); m != nil {
				return call(i, fr, fr.callpos, m, []value{itf.v, s})
			}
		}
		if strings.Contains(ts, "zzverif") || strings.Contains(ts, "Recorder") || strings.Contains(ts, "recorder") {
			if m := i.findMethod(itf.t, "Write"); m != nil {
				if _, isO := s.(*opaqueStr); !isO {
					return call(i, fr, fr.callpos, m, []value{itf.v, append([]value{}, bytesOfStr(s)...)})
				}
			}
		}
	}
	return tuple{0, iface{}}
}

// ---------------------------------------------------------------------
// errors.Is / errors.As

func (i *interpreter) unwrap(fr *frame, err iface) []iface {
	if err.t == nil {
		return nil
	}
	if m := i.findMethod(err.t, "Unwrap"); m != nil {
		sig := m.Signature
		if sig.Params().Len() == 0 && sig.Results().Len() == 1 {
			r := call(i, fr, fr.callpos, m, []value{err.v})
			switch r := r.(type) {
			case iface:
				if r.t == nil {
					return nil
				}
				return []iface{r}
			case []value:
				var out []iface
				for _, e := range r {
					if ei, ok := e.(iface); ok && ei.t != nil {
						out = append(out, ei)
					}
				}
				return out
			}
		}
	}
	return nil
}

func (i *interpreter) errorsIs(fr *frame, err, target iface, depth int) value {
	if depth > 50 {
		panic(engineErr{"errors.Is: chain too deep"})
	}
	if err.t == nil || target.t == nil {
		return err.t == nil && target.t == nil
	}
	if sameType(err.t, target.t) && types.Comparable(target.t) {
		if fr.cond(eqValue(fr, err.t, err.v, target.v)) {
			return true
		}
	}
	if m := i.findMethod(err.t, "Is"); m != nil && m.Signature.Params().Len() == 1 {
		if fr.cond(call(i, fr, fr.callpos, m, []value{err.v, target})) {
			return true
		}
	}
	for _, u := range i.unwrap(fr, err) {
		if fr.cond(i.errorsIs(fr, u, target, depth+1)) {
			return true
		}
	}
	return false
}

func (i *interpreter) errorsAs(fr *frame, err, target iface, depth int) value {
	if depth > 50 {
		panic(engineErr{"errors.As: chain too deep"})
	}
	if target.t == nil {
		panic(targetPanic{iface{i.runtimeErrorString, "errors: target cannot be nil"}})
	}
	pt, ok := target.t.Underlying().(*types.Pointer)
	if !ok {
		panic(targetPanic{iface{i.runtimeErrorString, "errors: target must be a non-nil pointer"}})
	}
	if err.t == nil {
		return false
	}
	et := pt.Elem()
	cell := target.v.(*value)
	if it, isI := et.Underlying().(*types.Interface); isI {
		if types.Implements(err.t, it) {
			i.setCell(cell, err)
			return true
		}
	} else if types.Identical(err.t, et) {
		i.store(et, cell, err.v)
		return true
	}
	if m := i.findMethod(err.t, "As"); m != nil && m.Signature.Params().Len() == 1 {
		if fr.cond(call(i, fr, fr.callpos, m, []value{err.v, target})) {
			return true
		}
	}
	for _, u := range i.unwrap(fr, err) {
		if fr.cond(i.errorsAs(fr, u, target, depth+1)) {
			return true
		}
	}
	return false
}

// ---------------------------------------------------------------------
// sort.Slice

func sortSlice(fr *frame, a []value) value {
	i := fr.i
	itf := a[0].(iface)
	sl, ok := itf.v.([]value)
	if !ok {
		panic(engineErr{"sort.Slice on non-slice"})
	}
	et := itf.t.Underlying().(*types.Slice).Elem()
	less := a[1]
	// insertion sort (stable); comparisons may fork
	for x := 1; x < len(sl); x++ {
		for y := x; y > 0; y-- {
			if !fr.cond(call(i, fr, fr.callpos, less, []value{y, y - 1})) {
				break
			}
			tmp := load(et, &sl[y])
			i.store(et, &sl[y], load(et, &sl[y-1]))
			i.store(et, &sl[y-1], tmp)
		}
	}
	return nil
}

// ---------------------------------------------------------------------
// time

type clockState struct {
	cur    value // int64 or *sym: monotonic nanoseconds
	manual bool
	n      int
}

const wallConst = uint64(1)<<63 | uint64(0x100000000)<<30

func (i *interpreter) clockNow(fr *frame) value {
	if i.path == nil {
		return int64(1 << 40)
	}
	if i.clock == nil {
		i.clock = &clockState{cur: int64(1 << 40)}
	}
	c := i.clock
	if !c.manual {
		// fresh non-negative step, bounded to keep arithmetic overflow-free
		d := i.ts.Var(fmt.Sprintf("clk%d", c.n), bvSort(64))
		c.n++
		i.path.addPC(i.ts.bvCmp("bvule", d, i.ts.BV(1<<50, 64)))
		kind := "clock-internal"
		if fr != nil && fr.caller != nil && fr.caller.fn != nil && fr.caller.fn.Pkg != nil &&
			strings.HasPrefix(fr.caller.fn.Pkg.Pkg.Path(), modPath) {
			kind = "clock"
		}
		i.path.inputs = append(i.path.inputs, inputRec{name: fmt.Sprintf("clock step %d", c.n), kind: kind, term: d})
		c.cur = binop(fr, tokADD, types.Typ[types.Int64], c.cur, value(&sym{d}))
	}
	return c.cur
}

func (i *interpreter) clockAdvance(fr *frame, d value) {
	if i.path == nil {
		return
	}
	if i.clock == nil {
		i.clock = &clockState{cur: int64(1 << 40)}
	}
	i.clock.manual = true
	i.clock.cur = binop(fr, tokADD, types.Typ[types.Int64], i.clock.cur, d)
}

// clockPeek reads the virtual clock without letting it move.
func (i *interpreter) clockPeek() value {
	if i.clock == nil {
		return int64(1 << 40)
	}
	return i.clock.cur
}

// virtual epoch of the model clock, Unix seconds
const clockEpochUnix = int64(1600000000)

func (i *interpreter) timeNow(fr *frame) value {
	return structure{wallConst, i.clockNow(fr), (*value)(nil)}
}

func (i *interpreter) newTimerLike(name string) value {
	t := i.namedType("time", name)
	st := zero(t).(structure)
	// field C is the first channel-typed field
	str := t.Underlying().(*types.Struct)
	for k := 0; k < str.NumFields(); k++ {
		if _, ok := str.Field(k).Type().Underlying().(*types.Chan); ok {
			st[k] = newChan(1)
			break
		}
	}
	var cell value = st
	return &cell
}
