package interpreter

// ZZAllowedExact reports whether name is an entry of the provider method
// allow-list that grants access (exact spelling of the Go method). The C12
// harness' probe calls it from inside every probe method: a Go method that
// runs although its own name is not granted is the violation, whatever lookup
// path led to it.
func ZZAllowedExact(name string) bool { return allowedMethods[name] }
