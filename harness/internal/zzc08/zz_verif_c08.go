// Package zzc08 holds the C08 harnesses: two requests in flight on one
// long-lived interpreter (as cmd/glyph arranges) do not interfere.
package zzc08

import (
	"strconv"
	"strings"

	"github.com/glyphlang/glyph/internal/zzverif"
	"github.com/glyphlang/glyph/pkg/ast"
	"github.com/glyphlang/glyph/pkg/database"
	"github.com/glyphlang/glyph/pkg/interpreter"
	"github.com/glyphlang/glyph/pkg/mongodb"
	"github.com/glyphlang/glyph/pkg/parser"
	"github.com/glyphlang/glyph/pkg/redis"
)

type server struct {
	in     *interpreter.Interpreter
	routes map[string]*ast.Route
}

// newServer parses src and loads it into one interpreter with the mock
// database, the way newConfiguredInterpreter + setupRoutes do.
func newServer(src string) *server {
	toks, err := parser.NewLexer(src).Tokenize()
	if err != nil {
		panic("harness program does not lex: " + err.Error())
	}
	mod, err := parser.NewParser(toks).Parse()
	if err != nil {
		panic("harness program does not parse: " + err.Error())
	}
	in := interpreter.NewInterpreter()
	in.SetDatabaseHandler(database.NewMockDatabase())
	if err := in.LoadModule(*mod); err != nil {
		panic("harness program does not load: " + err.Error())
	}
	s := &server{in: in, routes: map[string]*ast.Route{}}
	for _, it := range mod.Items {
		if r, ok := it.(*ast.Route); ok {
			s.routes[r.Path] = r
		}
	}
	return s
}

type reply struct {
	ok   bool
	body interface{}
}

func (s *server) get(pattern, path string, params map[string]string) reply {
	resp, err := s.in.ExecuteRoute(s.routes[pattern], &interpreter.Request{Path: path, Method: "GET", Params: params})
	if err != nil {
		return reply{}
	}
	return reply{true, resp.Body}
}

// both runs the two requests concurrently and returns their replies.
func both(f, g func() reply) (reply, reply) {
	var a, b reply
	done := make(chan struct{}, 2)
	go func() { zzverif.Perturb(); a = f(); done <- struct{}{} }()
	go func() { zzverif.Perturb(); b = g(); done <- struct{}{} }()
	<-done
	<-done
	return a, b
}

func same(x reply, want interface{}) bool { return x.ok && x.body == want }

// ---------------------------------------------------------------------------
// plain expressions over path parameters: each reply is the one the request
// gets alone

const srcPlain = `
@ GET /add/:n {
  $ k = 1
  $ m = k + 2
  > n + "-" + n
}
`

func VerifC08_PlainRoutes() {
	s := newServer(srcPlain)
	p := zzverif.StringFrom("p", 1, "ab")
	q := zzverif.StringFrom("q", 1, "ab")
	a, b := both(
		func() reply { return s.get("/add/:n", "/add/"+p, map[string]string{"n": p}) },
		func() reply { return s.get("/add/:n", "/add/"+q, map[string]string{"n": q}) },
	)
	zzverif.Assert(same(a, interface{}(p+"-"+p)), "plain: first reply is not the served-alone reply")
	zzverif.Assert(same(b, interface{}(q+"-"+q)), "plain: second reply is not the served-alone reply")
	zzverif.Reach("plain")
}

// ---------------------------------------------------------------------------
// generic function calls (the checker's type-parameter scope is per interpreter)

const srcGeneric = `
! identity<T>(x: T): T {
  > x
}

@ GET /s/:v {
  > identity(v)
}

@ GET /i {
  > identity(41) + 1
}
`

func VerifC08_GenericCalls() {
	s := newServer(srcGeneric)
	p := zzverif.StringFrom("p", 1, "ab")
	a, b := both(
		func() reply { return s.get("/s/:v", "/s/"+p, map[string]string{"v": p}) },
		func() reply { return s.get("/i", "/i", nil) },
	)
	zzverif.Assert(same(a, interface{}(p)), "generic: first reply is not the served-alone reply")
	zzverif.Assert(same(b, interface{}(int64(42))), "generic: second reply is not the served-alone reply")
	zzverif.Reach("generic")
}

// ---------------------------------------------------------------------------
// recursion depth: two requests, each well inside the evaluation depth limit

const srcRec = `
! down(n: int): int {
  if n <= 0 {
    > 0
  }
  > 1 + down(n - 1)
}

@ GET /d/:k {
  > down(NN)
}
`

// Under the engine the recursion is 3 deep against an evaluation depth limit
// scaled from 500 to 16 (checks/C08.json); natively the same program recurses
// 160 deep against the real limit of 500, so that one request fits (about 480
// levels) and two overlapping ones do not if they share a counter.
func VerifC08_RecursionDepth() {
	n := 3
	if !zzverif.Symbolic() {
		n = 160
	}
	s := newServer(strings.Replace(srcRec, "NN", strconv.Itoa(n), 1))
	alone := s.get("/d/:k", "/d/1", map[string]string{"k": "1"})
	zzverif.Assert(same(alone, interface{}(int64(n))), "recursion: the request fails even when served alone (harness bound too small)")
	a, b := both(
		func() reply { return s.get("/d/:k", "/d/1", map[string]string{"k": "1"}) },
		func() reply { return s.get("/d/:k", "/d/2", map[string]string{"k": "2"}) },
	)
	zzverif.Assert(same(a, interface{}(int64(n))), "recursion: a request that succeeds alone fails next to another one")
	zzverif.Assert(same(b, interface{}(int64(n))), "recursion: a request that succeeds alone fails next to another one")
	zzverif.Reach("rec")
}

// ---------------------------------------------------------------------------
// the shared mock store: one request updates a record while another reads it

const srcDB = `
@ GET /make {
  % db: Database
  $ r = db.items.create({id: 1, v: 1})
  > 1
}

@ GET /read {
  % db: Database
  $ r = db.items.get(1)
  > r.v
}

@ GET /bump/:to {
  % db: Database
  $ r = db.items.get(1)
  r.v = 2
  > 2
}

@ GET /update {
  % db: Database
  $ r = db.items.update(1, {v: 3})
  > 3
}
`

func VerifC08_StoreReadVsFieldWrite() {
	s := newServer(srcDB)
	mk := s.get("/make", "/make", nil)
	zzverif.Assert(mk.ok, "store: create failed")
	a, _ := both(
		func() reply { return s.get("/read", "/read", nil) },
		func() reply { return s.get("/bump/:to", "/bump/2", map[string]string{"to": "2"}) },
	)
	// the reader sees the record before or after the other request's write
	zzverif.Assert(a.ok && (a.body == interface{}(int64(1)) || a.body == interface{}(int64(2))), "store: reader saw neither the old nor the new value")
	zzverif.Reach("store1")
}

func VerifC08_StoreReadVsUpdate() {
	s := newServer(srcDB)
	mk := s.get("/make", "/make", nil)
	zzverif.Assert(mk.ok, "store: create failed")
	a, _ := both(
		func() reply { return s.get("/read", "/read", nil) },
		func() reply { return s.get("/update", "/update", nil) },
	)
	zzverif.Assert(a.ok && (a.body == interface{}(int64(1)) || a.body == interface{}(int64(3))), "store: reader saw neither the old nor the new value")
	zzverif.Reach("store2")
}

func VerifC08_Twin() {
	s := newServer(srcPlain)
	a, _ := both(
		func() reply { return s.get("/add/:n", "/add/a", map[string]string{"n": "a"}) },
		func() reply { return s.get("/add/:n", "/add/b", map[string]string{"n": "b"}) },
	)
	zzverif.Assert(!same(a, interface{}("a-a")), "twin")
	zzverif.Reach("twin")
}

var _ = strconv.Itoa

// ---------------------------------------------------------------------------
// provider operations take effect atomically: two creates, list while updating

const srcDB2 = `
@ GET /new/:tag {
  % db: Database
  $ r = db.items.create({tag: tag})
  > r.id
}

@ GET /count {
  % db: Database
  > db.items.length()
}

@ GET /tags {
  % db: Database
  $ all = db.items.all()
  $ out = ""
  for it in all {
    out = out + it.tag
  }
  > out
}

@ GET /retag {
  % db: Database
  $ r = db.items.update(1, {tag: "z"})
  > 1
}
`

func VerifC08_StoreTwoCreates() {
	s := newServer(srcDB2)
	a, b := both(
		func() reply { return s.get("/new/:tag", "/new/a", map[string]string{"tag": "a"}) },
		func() reply { return s.get("/new/:tag", "/new/b", map[string]string{"tag": "b"}) },
	)
	zzverif.Assert(a.ok && b.ok, "store: concurrent creates failed")
	ids := (a.body == interface{}(int64(1)) && b.body == interface{}(int64(2))) || (a.body == interface{}(int64(2)) && b.body == interface{}(int64(1)))
	zzverif.Assert(ids, "store: two concurrent creates were not given the ids 1 and 2")
	n := s.get("/count", "/count", nil)
	zzverif.Assert(same(n, interface{}(int64(2))), "store: a concurrent create was lost")
	t := s.get("/tags", "/tags", nil)
	zzverif.Assert(t.ok && (t.body == interface{}("ab") || t.body == interface{}("ba")), "store: stored records are not the two created ones")
	zzverif.Reach("creates")
}

func VerifC08_StoreListVsUpdate() {
	s := newServer(srcDB2)
	s.get("/new/:tag", "/new/a", map[string]string{"tag": "a"})
	s.get("/new/:tag", "/new/b", map[string]string{"tag": "b"})
	a, _ := both(
		func() reply { return s.get("/tags", "/tags", nil) },
		func() reply { return s.get("/retag", "/retag", nil) },
	)
	zzverif.Assert(a.ok && (a.body == interface{}("ab") || a.body == interface{}("zb")), "store: a listing saw neither the old nor the new records")
	zzverif.Reach("list")
}

// ---------------------------------------------------------------------------
// a module constant used by two requests at once: each request builds its own
// value from it, the constant itself never changes

const srcConst = `
const DEFAULT_TAGS = ["new", "unread", "inbox"]

@ GET /label/:tag {
  $ tags = append(DEFAULT_TAGS, tag)
  $ n = length(tags)
  > tags[3] + ":" + tags[0] + ":" + join(DEFAULT_TAGS, ",")
}
`

func VerifC08_SharedConstant() {
	s := newServer(srcConst)
	p := zzverif.StringFrom("p", 1, "ab")
	q := zzverif.StringFrom("q", 1, "cd")
	a, b := both(
		func() reply { return s.get("/label/:tag", "/label/"+p, map[string]string{"tag": p}) },
		func() reply { return s.get("/label/:tag", "/label/"+q, map[string]string{"tag": q}) },
	)
	zzverif.Assert(same(a, interface{}(p+":new:new,unread,inbox")), "constant: first reply is not the served-alone reply")
	zzverif.Assert(same(b, interface{}(q+":new:new,unread,inbox")), "constant: second reply is not the served-alone reply")
	zzverif.Reach("const")
}

// ---------------------------------------------------------------------------
// the in-memory Redis provider (what `glyph run` injects when GLYPH_REDIS_URL
// is unset): incr/decr are single provider operations

const srcRedis = `
@ GET /incr {
  % redis: Redis
  > redis.incr("hits")
}

@ GET /decr {
  % redis: Redis
  > redis.decr("hits")
}

@ GET /hits {
  % redis: Redis
  > redis.get("hits")
}
`

func newRedisServer() *server {
	s := newServer(srcRedis)
	s.in.SetRedisHandler(redis.NewMockHandler())
	return s
}

func VerifC08_RedisTwoIncrs() {
	s := newRedisServer()
	pre := zzverif.Choice("increments before", 2)
	for i := 0; i < pre; i++ {
		s.get("/incr", "/incr", nil)
	}
	a, b := both(
		func() reply { return s.get("/incr", "/incr", nil) },
		func() reply { return s.get("/incr", "/incr", nil) },
	)
	zzverif.Assert(a.ok && b.ok, "redis: concurrent incr failed")
	lo, hi := interface{}(int64(pre+1)), interface{}(int64(pre+2))
	zzverif.Assert((a.body == lo && b.body == hi) || (a.body == hi && b.body == lo), "redis: two concurrent incr requests were not answered n+1 and n+2")
	n := s.get("/hits", "/hits", nil)
	zzverif.Assert(same(n, interface{}(strconv.Itoa(pre+2))), "redis: a concurrent incr was lost")
	zzverif.Reach("redis-incr")
}

func VerifC08_RedisIncrVsDecr() {
	s := newRedisServer()
	s.get("/incr", "/incr", nil)
	a, b := both(
		func() reply { return s.get("/incr", "/incr", nil) },
		func() reply { return s.get("/decr", "/decr", nil) },
	)
	zzverif.Assert(a.ok && b.ok, "redis: concurrent incr/decr failed")
	zzverif.Assert((a.body == interface{}(int64(2)) && b.body == interface{}(int64(1))) || (a.body == interface{}(int64(1)) && b.body == interface{}(int64(0))), "redis: concurrent incr and decr answered as no sequential order would")
	n := s.get("/hits", "/hits", nil)
	zzverif.Assert(same(n, interface{}("1")), "redis: concurrent incr and decr did not cancel out")
	zzverif.Reach("redis-incr-decr")
}

// ---------------------------------------------------------------------------
// in-memory MongoDB (the provider `glyph run` injects by default): what one
// request read from a collection is its own; another request's update neither
// races with it nor shows through it

const srcMongo = `
@ GET /list {
  % mongo: MongoDB
  $ col = mongo.Collection("c")
  > col.Find({})
}

@ GET /one {
  % mongo: MongoDB
  $ col = mongo.Collection("c")
  > col.FindOne({k: 1})
}

@ GET /bump {
  % mongo: MongoDB
  $ col = mongo.Collection("c")
  > col.UpdateOne({k: 1}, {n: 2})
}

@ GET /bump3 {
  % mongo: MongoDB
  $ col = mongo.Collection("c")
  > col.UpdateMany({}, {n: 3})
}
`

func newMongoServer() *server {
	s := newServer(srcMongo)
	h := mongodb.NewMockHandler()
	h.Collection("c").InsertOne(map[string]interface{}{"k": int64(1), "n": int64(1)})
	s.in.SetMongoDBHandler(h)
	return s
}

// field n of the document a /list or /one reply carries (-1: not such a reply)
func mongoN(r reply) int64 {
	if !r.ok {
		return -1
	}
	var doc map[string]interface{}
	switch b := r.body.(type) {
	case []map[string]interface{}:
		if len(b) != 1 {
			return -1
		}
		doc = b[0]
	case map[string]interface{}:
		doc = b
	default:
		return -1
	}
	n, ok := doc["n"].(int64)
	if !ok {
		return -1
	}
	return n
}

func VerifC08_MongoFindVsUpdate() {
	s := newMongoServer()
	read := "/list"
	if zzverif.Choice("reader uses FindOne", 2) == 1 {
		read = "/one"
	}
	a, b := both(
		func() reply { return s.get(read, read, nil) },
		func() reply { return s.get("/bump", "/bump", nil) },
	)
	zzverif.Assert(a.ok && b.ok, "mongo: concurrent find/update failed")
	got := mongoN(a)
	zzverif.Assert(got == 1 || got == 2, "mongo: a reader saw a value no order of the two requests gives")
	zzverif.Assert(b.body == interface{}(int64(1)), "mongo: update did not report one modified document")
	zzverif.Assert(mongoN(s.get(read, read, nil)) == 2, "mongo: the update was lost")
	// a reply is the request's own: a later request's update does not show through it
	c := s.get("/bump3", "/bump3", nil)
	zzverif.Assert(same(c, interface{}(int64(1))), "mongo: UpdateMany({}) did not report one modified document")
	zzverif.Assert(mongoN(a) == got, "mongo: a reply changed after another request updated the collection")
	zzverif.Assert(mongoN(s.get(read, read, nil)) == 3, "mongo: the second update was lost")
	zzverif.Reach("mongo-find-update")
}
