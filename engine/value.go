// Derived from golang.org/x/tools/go/ssa/interp (BSD licence, The Go Authors).

package main

// Values
//
// All interpreter values are "boxed" in the empty interface, value.
// - bool, intN, uintN, floatN, complexN, string: concrete Go scalars
// - *sym: a symbolic scalar (bool, integer, float) = SMT term
// - symstr: a string with concrete length whose bytes may be symbolic
// - *omap: maps (insertion ordered; keys may be symbolic)
// - *chanv: channels (engine scheduler)
// - structure, array, *value (pointers), []value (slices), iface, tuple,
//   *ssa.Function / *ssa.Builtin / *closure / *nativeFunc, rtype, iter

import (
	"bytes"
	"fmt"
	"go/types"
	"sync"
	"unicode/utf8"

	"golang.org/x/tools/go/ssa"
)

type rwlock = sync.RWMutex

type value any

type tuple []value

type array []value

type iface struct {
	t types.Type // never an "untyped" type
	v value
}

type structure []value

type iter interface {
	next(fr *frame) tuple
}

type closure struct {
	Fn  *ssa.Function
	Env []value
}

type bad struct{}

type rtype struct {
	t types.Type
}

// sym is a symbolic scalar.
type sym struct{ t *Term }

// symstr is a string of concrete length; each element is uint8 or *sym (BV8).
type symstr []value

// opaqueStr is a string of unknown content (formatted error text etc.).
// Its length may be a symbolic value. Inspecting its bytes is unsupported.
type opaqueStr struct {
	id  int
	n   value // int or *sym(BV64)
	src string
	uni bool  // uniform: n copies of byte c (content known, length symbolic)
	c   byte
}

func strBytes(s string) []value {
	b := make([]value, len(s))
	for k := 0; k < len(s); k++ {
		b[k] = s[k]
	}
	return b
}

// mkstr normalises: all-concrete byte lists become Go strings.
func mkstr(b []value) value {
	for _, x := range b {
		if _, ok := x.(*sym); ok {
			return symstr(b)
		}
	}
	buf := make([]byte, len(b))
	for k, x := range b {
		buf[k] = x.(uint8)
	}
	return string(buf)
}

func bytesOfStr(x value) []value {
	switch x := x.(type) {
	case string:
		return strBytes(x)
	case symstr:
		return []value(x)
	}
	panic(engineErr{fmt.Sprintf("UNSUPPORTED bytes of %T %s", x, toString(x))})
}

func sameType(x, y types.Type) bool {
	if x == nil {
		return y == nil
	}
	return y != nil && types.Identical(x, y)
}

// equals: concrete equality (Go's == for type t). Symbolic operands are
// handled by eqValue; reaching here with one is an engine error.
func equals(t types.Type, x, y value) bool {
	switch x := x.(type) {
	case bool:
		return x == y.(bool)
	case int:
		return x == y.(int)
	case int8:
		return x == y.(int8)
	case int16:
		return x == y.(int16)
	case int32:
		return x == y.(int32)
	case int64:
		return x == y.(int64)
	case uint:
		return x == y.(uint)
	case uint8:
		return x == y.(uint8)
	case uint16:
		return x == y.(uint16)
	case uint32:
		return x == y.(uint32)
	case uint64:
		return x == y.(uint64)
	case uintptr:
		return x == y.(uintptr)
	case float32:
		return x == y.(float32)
	case float64:
		return x == y.(float64)
	case complex64:
		return x == y.(complex64)
	case complex128:
		return x == y.(complex128)
	case string:
		return x == y.(string)
	case *value:
		return x == y.(*value)
	case *chanv:
		return x == y.(*chanv)
	case rtype:
		return types.Identical(x.t, y.(rtype).t)
	}
	panic(engineErr{fmt.Sprintf("equals: unexpected %T", x)})
}

// load returns the value of type T in *addr (deep copy of aggregates).
func load(T types.Type, addr *value) value {
	switch T := T.Underlying().(type) {
	case *types.Struct:
		v := (*addr).(structure)
		a := make(structure, len(v))
		for i := range a {
			a[i] = load(T.Field(i).Type(), &v[i])
		}
		return a
	case *types.Array:
		v := (*addr).(array)
		a := make(array, len(v))
		et := T.Elem()
		for i := range a {
			a[i] = load(et, &v[i])
		}
		return a
	default:
		return *addr
	}
}

func writeValue(buf *bytes.Buffer, v value) {
	switch v := v.(type) {
	case nil, bool, int, int8, int16, int32, int64, uint, uint8, uint16, uint32, uint64, uintptr, float32, float64, complex64, complex128, string:
		fmt.Fprintf(buf, "%v", v)
	case *sym:
		buf.WriteString("<sym " + v.t.String() + ">")
	case symstr:
		buf.WriteString("\"")
		for _, b := range v {
			if c, ok := b.(uint8); ok {
				if c >= 32 && c < 127 {
					buf.WriteByte(c)
				} else {
					fmt.Fprintf(buf, "\\x%02x", c)
				}
			} else {
				buf.WriteString("?")
			}
		}
		buf.WriteString("\"")
	case *opaqueStr:
		fmt.Fprintf(buf, "<opaque string #%d %s>", v.id, v.src)
	case *omap:
		buf.WriteString("map[")
		sep := ""
		if v != nil {
			for _, e := range v.entries {
				if e.deleted {
					continue
				}
				buf.WriteString(sep)
				sep = " "
				writeValue(buf, e.key)
				buf.WriteString(":")
				writeValue(buf, e.val)
			}
		}
		buf.WriteString("]")
	case *chanv:
		fmt.Fprintf(buf, "chan(%p)", v)
	case *value:
		if v == nil {
			buf.WriteString("<nil>")
		} else {
			fmt.Fprintf(buf, "%p", v)
		}
	case iface:
		if v.t == nil {
			buf.WriteString("<nil>")
			return
		}
		fmt.Fprintf(buf, "(%s, ", v.t)
		writeValue(buf, v.v)
		buf.WriteString(")")
	case structure:
		buf.WriteString("{")
		for i, e := range v {
			if i > 0 {
				buf.WriteString(" ")
			}
			writeValue(buf, e)
		}
		buf.WriteString("}")
	case array:
		buf.WriteString("[")
		for i, e := range v {
			if i > 0 {
				buf.WriteString(" ")
			}
			writeValue(buf, e)
		}
		buf.WriteString("]")
	case []value:
		buf.WriteString("[")
		for i, e := range v {
			if i > 0 {
				buf.WriteString(" ")
			}
			writeValue(buf, e)
		}
		buf.WriteString("]")
	case *ssa.Function, *ssa.Builtin, *closure:
		fmt.Fprintf(buf, "%p", v)
	case rtype:
		buf.WriteString(v.t.String())
	case tuple:
		buf.WriteString("(")
		for i, e := range v {
			if i > 0 {
				buf.WriteString(", ")
			}
			writeValue(buf, e)
		}
		buf.WriteString(")")
	default:
		fmt.Fprintf(buf, "<%T>", v)
	}
}

func toString(v value) string {
	var b bytes.Buffer
	writeValue(&b, v)
	s := b.String()
	if len(s) > 300 {
		s = s[:300] + "..."
	}
	return s
}

// ------------------------------------------------------------------------
// Ordered maps

type mentry struct {
	key, val value
	deleted  bool
	symkey   bool
}

type omap struct {
	keyType types.Type
	entries []*mentry
	idx     map[any]*mentry // concrete, natively hashable keys
	n       int
	nsym    int
	native  bool
}

func nativeKey(t types.Type) bool {
	switch t := t.(type) {
	case *types.Basic, *types.Chan, *types.Pointer:
		return true
	case *types.Named, *types.Alias:
		return nativeKey(t.Underlying())
	}
	return false
}

func makeMap(kt types.Type) *omap {
	return &omap{keyType: kt, idx: map[any]*mentry{}, native: nativeKey(kt)}
}

func hasSym(v value) bool {
	switch v := v.(type) {
	case *sym, symstr, *opaqueStr:
		return true
	case structure:
		for _, e := range v {
			if hasSym(e) {
				return true
			}
		}
	case array:
		for _, e := range v {
			if hasSym(e) {
				return true
			}
		}
	case iface:
		return hasSym(v.v)
	}
	return false
}

// find returns the entry whose key equals k on this path (forking on
// symbolic comparisons), or nil.
func (m *omap) find(fr *frame, k value) *mentry {
	if m == nil {
		return nil
	}
	ksym := hasSym(k)
	if !ksym && m.native {
		if e, ok := m.idx[k]; ok {
			return e
		}
		if m.nsym == 0 {
			return nil
		}
	}
	for _, e := range m.entries {
		if e.deleted {
			continue
		}
		if !ksym && !e.symkey && m.native {
			continue // already covered by idx
		}
		c := eqValue(fr, m.keyType, e.key, k)
		if fr.cond(c) {
			return e
		}
	}
	return nil
}

func (m *omap) insert(fr *frame, k, v value) {
	i := fr.i
	if e := m.find(fr, k); e != nil {
		old := e.val
		i.onUndo(func() { e.val = old })
		e.val = v
		return
	}
	e := &mentry{key: k, val: v, symkey: hasSym(k)}
	m.entries = append(m.entries, e)
	m.n++
	if e.symkey {
		m.nsym++
	} else if m.native {
		m.idx[k] = e
	}
	i.onUndo(func() {
		m.entries = m.entries[:len(m.entries)-1]
		m.n--
		if e.symkey {
			m.nsym--
		} else if m.native {
			delete(m.idx, k)
		}
	})
}

func (m *omap) remove(fr *frame, k value) {
	if m == nil {
		return
	}
	e := m.find(fr, k)
	if e == nil {
		return
	}
	e.deleted = true
	m.n--
	if e.symkey {
		m.nsym--
	} else if m.native {
		delete(m.idx, e.key)
	}
	fr.i.onUndo(func() {
		e.deleted = false
		m.n++
		if e.symkey {
			m.nsym++
		} else if m.native {
			m.idx[e.key] = e
		}
	})
}

func (m *omap) clear(fr *frame) {
	if m == nil {
		return
	}
	for _, e := range m.entries {
		if !e.deleted {
			m.remove(fr, e.key)
		}
	}
}

func (m *omap) len() int {
	if m == nil {
		return 0
	}
	return m.n
}

type omapIter struct {
	m   *omap
	pos int
}

func (it *omapIter) next(fr *frame) tuple {
	if it.m != nil {
		mapAccess(fr, it.m, false)
		for it.pos < len(it.m.entries) {
			e := it.m.entries[it.pos]
			it.pos++
			if !e.deleted {
				return tuple{true, e.key, e.val}
			}
		}
	}
	return tuple{false, nil, nil}
}

// ------------------------------------------------------------------------
// string iteration

type stringIter struct {
	b   []value
	pos int
}

func (it *stringIter) next(fr *frame) tuple {
	if it.pos >= len(it.b) {
		return tuple{false, nil, nil}
	}
	start := it.pos
	r, n := decodeRune(fr, it.b[it.pos:])
	it.pos += n
	return tuple{true, start, r}
}

// decodeRune decodes one UTF-8 sequence from b (len>0), forking on
// symbolic bytes as required. Returns the rune (int32 or *sym) and width.
func decodeRune(fr *frame, b []value) (value, int) {
	ts := fr.i.ts
	b0, ok := b[0].(uint8)
	if !ok {
		s0 := b[0].(*sym)
		// ASCII?
		if fr.cond(&sym{ts.bvCmp("bvult", s0.t, ts.BV(0x80, 8))}) {
			return &sym{ts.Resize(s0.t, 32, false)}, 1
		}
		// multi-byte: concretise the lead byte (bounded fork)
		b0 = uint8(fr.concretize(s0, "utf8 lead byte"))
	}
	if b0 < 0x80 {
		return int32(b0), 1
	}
	// gather up to 4 bytes, concretising continuation bytes
	n := 1
	switch {
	case b0 >= 0xC2 && b0 <= 0xDF:
		n = 2
	case b0 >= 0xE0 && b0 <= 0xEF:
		n = 3
	case b0 >= 0xF0 && b0 <= 0xF4:
		n = 4
	default:
		return int32(utf8.RuneError), 1
	}
	buf := []byte{b0}
	for k := 1; k < n && k < len(b); k++ {
		switch c := b[k].(type) {
		case uint8:
			buf = append(buf, c)
		case *sym:
			buf = append(buf, uint8(fr.concretize(c, "utf8 continuation byte")))
		}
	}
	r, w := utf8.DecodeRune(buf)
	return int32(r), w
}
