#!/usr/bin/env python3
# Development-time helper (never run by a check): appends the natively
# confirmed violations of the last run of <property> (replay/<property>/*.json)
# to known_findings.jsonl with a description. Usage: record_findings.py C03 "why not repaired"
import json, glob, sys, os
V = os.path.dirname(os.path.dirname(os.path.abspath(__file__)))
prop, why = sys.argv[1], sys.argv[2]
have = set()
for line in open(os.path.join(V, 'known_findings.jsonl')):
    line = line.strip()
    if line:
        d = json.loads(line)
        if 'key' in d:
            have.add((d['property'], d.get('harness', ''), d['key']))
out = open(os.path.join(V, 'known_findings.jsonl'), 'a')
n = 0
for f in sorted(glob.glob(os.path.join(V, 'replay', prop, '*.json'))):
    if os.path.basename(f).startswith('unconfirmed'):
        continue
    v = json.load(open(f))
    k = (prop, v['harness'], v['key'])
    if k in have:
        continue
    have.add(k)
    inputs = ", ".join("%s=%d" % (e['name'], e['val'] if e['val'] < 2**63 else e['val'] - 2**64) for e in v['vector'])
    out.write(json.dumps({"property": prop, "harness": v['harness'], "key": v['key'],
                          "what": "%s (%s); failing input: %s; native replay: %s; %s" % (v['key'], v['msg'], inputs, v.get('confirmed', ''), why)}) + "\n")
    n += 1
print("recorded", n)
