package zzc02

// C04 — faults in user programs are contained (engine level: no Go panic
// escapes, every evaluation ends within bounded work).

import (
	"github.com/glyphlang/glyph/internal/zzverif"
	"github.com/glyphlang/glyph/pkg/ast"
	"github.com/glyphlang/glyph/pkg/compiler"
	"github.com/glyphlang/glyph/pkg/interpreter"
	"github.com/glyphlang/glyph/pkg/vm"
)

var interpBuiltins = []string{"Ok", "Err", "upper", "lower", "trim", "split", "join", "contains", "replace",
	"substring", "length", "startsWith", "endsWith", "indexOf", "charAt", "parseInt", "parseFloat", "toString",
	"abs", "min", "max", "randomInt", "append", "set", "remove", "keys", "map", "filter", "reduce", "find",
	"some", "every", "sort", "reverse", "flat", "slice", "text", "html", "blob", "redirect", "now", "time.now", "generateId"}

var vmBuiltins = []string{"length", "upper", "lower", "trim", "split", "join", "contains", "replace", "substring", "now", "time.now"}

func argVector(max int, ntags int) ([]ast.Expr, string) {
	n := zzverif.Choice("nargs", max+1)
	var args []ast.Expr
	shape := ""
	for k := 0; k < n; k++ {
		e, t := anyOperand("arg", ntags)
		args = append(args, e)
		shape += " " + t
	}
	return args, shape
}

// Every interpreter builtin x argument vectors of every kind: a value or a
// GlyphLang-level error, never a Go panic.
func zzInterpBuiltins(maxArgs int) {
	name := interpBuiltins[zzverif.Choice("builtin", len(interpBuiltins))]
	args, shape := argVector(maxArgs, 7)
	in := interpreter.NewInterpreter()
	env := interpreter.NewEnvironment()
	func() {
		defer func() {
			if r := recover(); r != nil {
				zzverif.Fail("interpreter-builtin-panics " + name + "(" + shape + " )")
			}
		}()
		zzverif.Obligation("builtin " + name + " returns")
		in.EvaluateExpression(ast.FunctionCallExpr{Name: name, Args: args}, env)
	}()
	zzverif.Reach("interp-builtins")
}

func VerifC04_InterpBuiltins2() { zzInterpBuiltins(2) }
func VerifC04_InterpBuiltins3() { zzInterpBuiltins(3) }

// The same for the VM's builtins through compiled code.
func VerifC04_VMBuiltins() {
	name := vmBuiltins[zzverif.Choice("builtin", len(vmBuiltins))]
	args, shape := argVector(3, 7)
	route := routeOf(ret(ast.FunctionCallExpr{Name: name, Args: args}))
	bc, err := compiler.NewCompilerWithOptLevel(compiler.OptBasic).CompileRoute(route)
	if err == nil {
		func() {
			defer func() {
				if r := recover(); r != nil {
					zzverif.Fail("vm-builtin-panics " + name + "(" + shape + " )")
				}
			}()
			m := vm.NewVM()
			m.SetMaxSteps(1000)
			zzverif.Obligation("vm builtin " + name + " returns")
			m.Execute(bc)
		}()
	}
	zzverif.Reach("vm-builtins")
}

// Index / field assignment and access on every kind, both engines.
func VerifC04_IndexAssign() {
	target, tt := anyOperand("target", 7)
	idx, it := anyOperand("index", 4)
	val := ast.LiteralExpr{Value: ast.IntLiteral{Value: 1}}
	route := routeOf(
		ast.AssignStatement{Target: "t", Value: target},
		ast.IndexAssignStatement{Target: ast.ArrayIndexExpr{Array: ast.VariableExpr{Name: "t"}, Index: idx}, Value: val},
		ret(ast.ArrayIndexExpr{Array: ast.VariableExpr{Name: "t"}, Index: idx}))
	func() {
		defer func() {
			if r := recover(); r != nil {
				zzverif.Fail("index-assign-panics target:" + tt + " index:" + it)
			}
		}()
		runInterpreted(route)
		runCompiled(route, compiler.OptBasic)
	}()
	zzverif.Reach("index-assign")
}

// Bounded work in the interpreter: a loop whose condition stays true ends with
// the iteration-limit error (limit scaled by the check configuration), and
// unbounded recursion ends with the depth error.
func VerifC04_InterpBoundedWork() {
	in := interpreter.NewInterpreter()
	switch zzverif.Choice("program", 2) {
	case 0:
		// every way a pass through the body can end: falling off the end, a
		// continue (unconditional, or taken for a symbolic condition), an inner
		// loop left by break
		assign := ast.AssignStatement{Target: "x", Value: ast.LiteralExpr{Value: ast.IntLiteral{Value: zzverif.Int64("x")}}}
		cond := ast.LiteralExpr{Value: ast.BoolLiteral{Value: zzverif.Bool("c")}}
		var body []ast.Statement
		switch zzverif.Choice("body", 5) {
		case 0:
			body = []ast.Statement{assign}
		case 1:
			body = []ast.Statement{ast.ContinueStatement{}}
		case 2:
			body = []ast.Statement{assign, ast.ContinueStatement{}}
		case 3:
			body = []ast.Statement{ast.IfStatement{Condition: cond, ThenBlock: []ast.Statement{ast.ContinueStatement{}}}, assign}
		default:
			body = []ast.Statement{ast.WhileStatement{Condition: ast.LiteralExpr{Value: ast.BoolLiteral{Value: true}}, Body: []ast.Statement{ast.BreakStatement{}}}, ast.ContinueStatement{}}
		}
		route := routeOf(ast.WhileStatement{Condition: ast.LiteralExpr{Value: ast.BoolLiteral{Value: true}}, Body: body},
			ret(ast.LiteralExpr{Value: ast.IntLiteral{Value: 1}}))
		zzverif.Obligation("interpreter while(true) ends")
		_, err := in.ExecuteRoute(route, &interpreter.Request{Path: "/t", Method: "GET"})
		zzverif.Assert(err != nil, "while-true-returned-a-value")
	default:
		fn := &ast.Function{Name: "f", Body: []ast.Statement{ast.ReturnStatement{Value: ast.FunctionCallExpr{Name: "f"}}}}
		route := routeOf(ret(ast.FunctionCallExpr{Name: "f"}))
		in.LoadModule(ast.Module{Items: []ast.Item{fn, route}})
		zzverif.Obligation("interpreter unbounded recursion ends")
		_, err := in.ExecuteRoute(route, &interpreter.Request{Path: "/t", Method: "GET"})
		zzverif.Assert(err != nil, "unbounded-recursion-returned-a-value")
	}
	zzverif.Reach("interp-bounded")
}

func VerifC04_Twin() {
	in := interpreter.NewInterpreter()
	env := interpreter.NewEnvironment()
	_, err := in.EvaluateExpression(ast.FunctionCallExpr{Name: "abs", Args: []ast.Expr{ast.LiteralExpr{Value: ast.IntLiteral{Value: zzverif.Int64("x")}}}}, env)
	zzverif.Assert(err != nil, "twin-must-fail")
	zzverif.Reach("twin")
}

// String builtins on text that is not ASCII: rune counts and byte lengths
// differ, so an index check done in the wrong unit shows up as a Go panic.
// Both engines, symbolic indices.
func VerifC04_NonASCIIStrings() {
	text := []string{"hé", "éè", "a世b", "é", "éééééééééééééééééééé"}[zzverif.Choice("text", 5)]
	// indices up to 40: Go gives the []rune of a short string spare capacity
	// (up to 32 elements), so slicing past the length but inside that capacity
	// is not a crash natively although the engine (capacity = length) reports
	// one; only crashes outside that grey zone are claimed
	i := int64(zzverif.IntRange("i", -1, 40))
	j := int64(zzverif.IntRange("j", -1, 40))
	grey := func() bool {
		m := i
		if j > m {
			m = j
		}
		return m <= 32 && i >= 0 && j >= 0
	}
	s := ast.LiteralExpr{Value: ast.StringLiteral{Value: text}}
	ii := ast.LiteralExpr{Value: ast.IntLiteral{Value: i}}
	jj := ast.LiteralExpr{Value: ast.IntLiteral{Value: j}}
	var call ast.Expr
	name := ""
	switch zzverif.Choice("builtin", 4) {
	case 0:
		call, name = ast.FunctionCallExpr{Name: "substring", Args: []ast.Expr{s, ii, jj}}, "substring"
	case 1:
		call, name = ast.FunctionCallExpr{Name: "charAt", Args: []ast.Expr{s, ii}}, "charAt"
	case 2:
		call, name = ast.ArrayIndexExpr{Array: ast.FunctionCallExpr{Name: "split", Args: []ast.Expr{s, ast.LiteralExpr{Value: ast.StringLiteral{Value: ""}}}}, Index: ii}, "split-index"
	default:
		call, name = ast.FunctionCallExpr{Name: "length", Args: []ast.Expr{s}}, "length"
	}
	route := routeOf(ret(call))
	func() {
		defer func() {
			if r := recover(); r != nil {
				if grey() {
					return
				}
				zzverif.Fail("interpreter-builtin-panics-on-non-ascii " + name)
			}
		}()
		zzverif.Obligation("interpreter builtin returns")
		interpreter.NewInterpreter().ExecuteRoute(route, &interpreter.Request{Path: "/t", Method: "GET"})
	}()
	bc, err := compiler.NewCompilerWithOptLevel(compiler.OptBasic).CompileRoute(route)
	if err == nil {
		func() {
			defer func() {
				if r := recover(); r != nil {
					if grey() {
						return
					}
					zzverif.Fail("vm-builtin-panics-on-non-ascii " + name)
				}
			}()
			m := vm.NewVM()
			m.SetMaxSteps(1000)
			zzverif.Obligation("vm builtin returns")
			m.Execute(bc)
		}()
	}
	zzverif.Reach("nonascii")
}

// The recursion guard leaves no residue: after any number of evaluations that
// ran into the depth limit (through entry points that share the
// interpreter-wide counter: ExecuteRouteSimple, EvaluateExpression), a trivial
// evaluation on the same interpreter still succeeds. The depth limit is scaled
// down by the check configuration so that a few overflows would exhaust it.
func VerifC04_DepthGuardNoResidue() {
	in := interpreter.NewInterpreter()
	fn := &ast.Function{Name: "f", Body: []ast.Statement{ast.ReturnStatement{Value: ast.FunctionCallExpr{Name: "f"}}}}
	deep := routeOf(ret(ast.FunctionCallExpr{Name: "f"}))
	in.LoadModule(ast.Module{Items: []ast.Item{fn, deep}})
	n := 1 + zzverif.Choice("overflows", 3)*6 // 1, 7 or 13 over-deep requests
	if !zzverif.Symbolic() && n > 1 {
		n = 520 // natively the real limit (500) applies: as many overflows as it takes to use it up one level at a time
	}
	entry := zzverif.Choice("entry", 2)
	for k := 0; k < n; k++ {
		zzverif.Obligation("over-deep evaluation ends")
		var err error
		if entry == 0 {
			_, err = in.ExecuteRouteSimple(deep, nil)
		} else {
			_, err = in.EvaluateExpression(ast.FunctionCallExpr{Name: "f"}, interpreter.NewEnvironment())
		}
		zzverif.Assert(err != nil, "unbounded-recursion-returned-a-value")
	}
	x := zzverif.Int64("x")
	v, err := in.EvaluateExpression(ast.BinaryOpExpr{Op: ast.Add, Left: ast.LiteralExpr{Value: ast.IntLiteral{Value: x}}, Right: ast.LiteralExpr{Value: ast.IntLiteral{Value: 1}}}, interpreter.NewEnvironment())
	zzverif.Assert(err == nil && v == interface{}(x+1), "trivial evaluation fails after earlier over-deep evaluations")
	plain := routeOf(ret(ast.LiteralExpr{Value: ast.IntLiteral{Value: 5}}))
	r, err2 := in.ExecuteRouteSimple(plain, nil)
	zzverif.Assert(err2 == nil && r == interface{}(int64(5)), "trivial route fails after earlier over-deep evaluations")
	zzverif.Reach("depth-residue")
}
