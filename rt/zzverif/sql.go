package zzverif

// database/sql glue. Under the engine database/sql's DB/Tx methods are
// modelled (engine/sqlmodel.go) and forward every driver-level operation to
// the hook installed with SetSQLHook. Natively the real database/sql runs
// over the fake driver below ("zzfake"), which forwards the same operations
// to the same hook — so the harness' model store and fault plan are shared by
// both executions.

import (
	"context"
	"database/sql"
	"database/sql/driver"
	"errors"
	"sync"
)

// SQLResult is the sql.Result handed back by modelled Exec calls.
type SQLResult struct{}

func (SQLResult) LastInsertId() (int64, error) { return 0, nil }
func (SQLResult) RowsAffected() (int64, error) { return 0, nil }

var (
	sqlHookMu sync.Mutex
	sqlHookFn func(op, query string, args []any) error
)

// SetSQLHook installs the driver-level hook. ops: "begin", "tx.exec",
// "exec", "commit", "rollback".
func SetSQLHook(f func(op, query string, args []any) error) {
	sqlHookMu.Lock()
	sqlHookFn = f
	sqlHookMu.Unlock()
}

func sqlCallHook(op, q string, args []any) error {
	sqlHookMu.Lock()
	defer sqlHookMu.Unlock()
	if sqlHookFn == nil {
		return errors.New("zzfake: no hook installed")
	}
	return sqlHookFn(op, q, args)
}

type fakeDriver struct{}

func (fakeDriver) Open(string) (driver.Conn, error) { return &fakeConn{}, nil }

type fakeConn struct{ inTx bool }

func (c *fakeConn) Prepare(string) (driver.Stmt, error) {
	return nil, errors.New("zzfake: Prepare not supported")
}
func (c *fakeConn) Close() error { return nil }
func (c *fakeConn) Begin() (driver.Tx, error) {
	if err := sqlCallHook("begin", "", nil); err != nil {
		return nil, err
	}
	c.inTx = true
	return &fakeTx{c}, nil
}
func (c *fakeConn) ExecContext(ctx context.Context, q string, nv []driver.NamedValue) (driver.Result, error) {
	args := make([]any, len(nv))
	for k := range nv {
		args[k] = nv[k].Value
	}
	op := "exec"
	if c.inTx {
		op = "tx.exec"
	}
	if err := sqlCallHook(op, q, args); err != nil {
		return nil, err
	}
	return SQLResult{}, nil
}

type fakeTx struct{ c *fakeConn }

func (t *fakeTx) Commit() error   { t.c.inTx = false; return sqlCallHook("commit", "", nil) }
func (t *fakeTx) Rollback() error { t.c.inTx = false; return sqlCallHook("rollback", "", nil) }

func init() { sql.Register("zzfake", fakeDriver{}) }

// OpenFakeDB opens a database handle over the fake driver (one connection).
func OpenFakeDB() *sql.DB {
	db, err := sql.Open("zzfake", "")
	if err != nil {
		panic(err)
	}
	db.SetMaxOpenConns(1)
	return db
}
