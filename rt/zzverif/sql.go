package zzverif

// database/sql glue. Under the engine database/sql's DB/Tx methods are
// modelled (engine/sqlmodel.go) and forward every driver-level operation to
// the hook installed with SetSQLHook. Natively the real database/sql runs
// over the fake driver below ("zzfake"), which forwards the same operations
// to the same hook — so the harness' model store and fault plan are shared by
// both executions.

import (
	"context"
	"database/sql"
	"database/sql/driver"
	"errors"
	"sync"
)

// SQLResult is the sql.Result handed back by modelled Exec calls.
type SQLResult struct{}

func (SQLResult) LastInsertId() (int64, error) { return 0, nil }
func (SQLResult) RowsAffected() (int64, error) { return 0, nil }

var (
	sqlHookMu sync.Mutex
	sqlHookFn func(op, query string, args []any) error
	sqlTxN    int // transactions begun so far
	sqlCur    int // transaction the running hook call belongs to (0: none)
)

// SQLTx reports, inside the hook, which transaction the operation belongs to:
// 1, 2, ... in order of Begin, 0 for a statement outside any transaction.
func SQLTx() int { return sqlCur }

// SetSQLHook installs the driver-level hook. ops: "begin", "tx.exec",
// "exec", "commit", "rollback".
func SetSQLHook(f func(op, query string, args []any) error) {
	sqlHookMu.Lock()
	sqlHookFn = f
	sqlHookMu.Unlock()
}

func sqlCallHook(op, q string, args []any, tx int) error {
	sqlHookMu.Lock()
	defer sqlHookMu.Unlock()
	sqlCur = tx
	if sqlHookFn == nil {
		return errors.New("zzfake: no hook installed")
	}
	return sqlHookFn(op, q, args)
}

type fakeDriver struct{}

func (fakeDriver) Open(string) (driver.Conn, error) { return &fakeConn{}, nil }

type fakeConn struct {
	inTx bool
	tx   int
}

func (c *fakeConn) Prepare(string) (driver.Stmt, error) {
	return nil, errors.New("zzfake: Prepare not supported")
}
func (c *fakeConn) Close() error { return nil }
func (c *fakeConn) Begin() (driver.Tx, error) {
	sqlHookMu.Lock()
	sqlTxN++
	id := sqlTxN
	sqlHookMu.Unlock()
	if err := sqlCallHook("begin", "", nil, id); err != nil {
		return nil, err
	}
	c.inTx, c.tx = true, id
	return &fakeTx{c}, nil
}
func (c *fakeConn) ExecContext(ctx context.Context, q string, nv []driver.NamedValue) (driver.Result, error) {
	args := make([]any, len(nv))
	for k := range nv {
		args[k] = nv[k].Value
	}
	op, id := "exec", 0
	if c.inTx {
		op, id = "tx.exec", c.tx
	}
	if err := sqlCallHook(op, q, args, id); err != nil {
		return nil, err
	}
	return SQLResult{}, nil
}

type fakeTx struct{ c *fakeConn }

func (t *fakeTx) Commit() error   { t.c.inTx = false; return sqlCallHook("commit", "", nil, t.c.tx) }
func (t *fakeTx) Rollback() error { t.c.inTx = false; return sqlCallHook("rollback", "", nil, t.c.tx) }

func init() { sql.Register("zzfake", fakeDriver{}) }

// OpenFakeDB opens a database handle over the fake driver (one connection).
func OpenFakeDB() *sql.DB {
	db, err := sql.Open("zzfake", "")
	if err != nil {
		panic(err)
	}
	db.SetMaxOpenConns(1)
	return db
}

// OpenFakeDBConns opens a handle whose pool holds up to n connections, so that
// a transaction begun while another one is open gets a connection of its own.
func OpenFakeDBConns(n int) *sql.DB {
	db := OpenFakeDB()
	db.SetMaxOpenConns(n)
	return db
}
