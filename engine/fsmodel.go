package main

// Model file system for os.* (C17, C19). The tree is declared by the harness
// (zzverif.FSDir/FSFile/FSSymlink); natively the same calls build a real
// directory tree under a temporary directory. Path strings handed to
// os.Lstat/Stat/Open/Readlink/ReadFile/ReadDir may contain symbolic bytes: the
// walk below is the kernel's path resolution executed over them, forking on
// "is this byte a slash" and on component-name comparisons, so every outcome
// a byte string can have on this tree is explored.

import (
	"fmt"
	"go/types"
	"sort"
	"strings"
)

type fsNode struct {
	kind     int // 0 file, 1 dir, 2 symlink
	name     string
	parent   *fsNode
	children map[string]*fsNode
	data     value  // file content (string)
	target   string // symlink target
	mtime    value  // virtual clock reading (ns) when the content was written
}

type fsModel struct {
	root *fsNode
	cwd  string
}

func (i *interpreter) fs() *fsModel {
	m, _ := i.side["fs"].(*fsModel)
	if m == nil {
		m = &fsModel{root: &fsNode{kind: 1, children: map[string]*fsNode{}}, cwd: "/"}
		m.root.parent = m.root
		i.side["fs"] = m
	}
	return m
}

func (n *fsNode) phys() string {
	if n.parent == n {
		return "/"
	}
	p := n.parent.phys()
	if p == "/" {
		return "/" + n.name
	}
	return p + "/" + n.name
}

func (m *fsModel) mk(path string, kind int) *fsNode {
	if !strings.HasPrefix(path, "/") {
		panic(engineErr{"model FS paths must be absolute: " + path})
	}
	cur := m.root
	parts := strings.Split(strings.Trim(path, "/"), "/")
	for k, p := range parts {
		if p == "" {
			continue
		}
		ch := cur.children[p]
		last := k == len(parts)-1
		if ch == nil {
			ch = &fsNode{kind: 1, name: p, parent: cur, children: map[string]*fsNode{}}
			if last {
				ch.kind = kind
			}
			cur.children[p] = ch
		} else if last && ch.kind != kind {
			panic(engineErr{"model FS: " + path + " declared twice with different kinds"})
		}
		if !last && ch.kind != 1 {
			panic(engineErr{"model FS: " + path + ": parent is not a directory (declare symlinked content under its physical path)"})
		}
		cur = ch
	}
	return cur
}

const (
	fsENOENT  = 1
	fsENOTDIR = 2
	fsELOOP   = 3
	fsEINVAL  = 4
	fsEISDIR  = 5
)

type fsErr struct{ kind int }

// walk resolves path (concrete or symbolic bytes) from dir cur.
func (m *fsModel) walk(fr *frame, cur *fsNode, path []value, followLast bool, hops *int) (*fsNode, *fsErr) {
	i := fr.i
	ts := i.ts
	if len(path) == 0 {
		return nil, &fsErr{fsENOENT}
	}
	memo := make([]int8, len(path))
	isSlash := func(k int) bool {
		if memo[k] != 0 {
			return memo[k] > 0
		}
		r := false
		if c, ok := path[k].(uint8); ok {
			r = c == '/'
		} else {
			r = fr.cond(boolVal(ts.Eq(byteTerm(i, path[k]), ts.BV('/', 8))))
		}
		memo[k] = -1
		if r {
			memo[k] = 1
		}
		return r
	}
	k := 0
	if isSlash(0) {
		cur = m.root
		k = 1
	}
	for k < len(path) {
		// skip slashes
		if isSlash(k) {
			k++
			continue
		}
		start := k
		for k < len(path) && !isSlash(k) {
			k++
		}
		comp := path[start:k]
		// is this the last component? (only slashes may follow)
		last := true
		trailingSlash := false
		for j := k; j < len(path); j++ {
			if !isSlash(j) {
				last = false
				break
			}
			trailingSlash = true
		}
		if cur.kind != 1 {
			return nil, &fsErr{fsENOTDIR}
		}
		eq := func(s string) bool {
			if len(s) != len(comp) {
				return false
			}
			return fr.cond(bytesEq(fr, comp, strBytes(s)))
		}
		var next *fsNode
		switch {
		case eq("."):
			next = cur
		case eq(".."):
			next = cur.parent
		default:
			names := make([]string, 0, len(cur.children))
			for n := range cur.children {
				names = append(names, n)
			}
			sort.Strings(names)
			for _, n := range names {
				if eq(n) {
					next = cur.children[n]
					break
				}
			}
			if next == nil {
				return nil, &fsErr{fsENOENT}
			}
		}
		if next.kind == 2 && (!last || followLast || trailingSlash) {
			*hops++
			if *hops > 40 {
				return nil, &fsErr{fsELOOP}
			}
			t, e := m.walk(fr, cur, strBytes(next.target), true, hops)
			if e != nil {
				return nil, e
			}
			next = t
		}
		if (!last || trailingSlash) && next.kind != 1 {
			return nil, &fsErr{fsENOTDIR}
		}
		cur = next
	}
	return cur, nil
}

func (i *interpreter) fsResolve(fr *frame, name value, follow bool) (*fsNode, *fsErr) {
	m := i.fs()
	b := bytesOfStr(name)
	// Go refuses names containing NUL before any system call
	ts := i.ts
	nul := ts.tFalse
	for _, x := range b {
		nul = ts.Or(nul, ts.Eq(byteTerm(i, x), ts.BV(0, 8)))
	}
	if fr.cond(boolVal(nul)) {
		return nil, &fsErr{fsEINVAL}
	}
	hops := 0
	start := m.root
	if len(b) > 0 {
		if c, ok := b[0].(uint8); !ok || c != '/' {
			var e *fsErr
			h := 0
			start, e = m.walk(fr, m.root, strBytes(m.cwd), true, &h)
			if e != nil {
				return nil, e
			}
		}
	}
	return m.walk(fr, start, b, follow, &hops)
}

func (i *interpreter) fsError(op string, path value, e *fsErr) iface {
	t := i.namedType(modPath+"/internal/zzverif", "FSError")
	if _, isStr := path.(string); !isStr {
		path = "<symbolic path>"
	}
	var cell value = structure{op, path, e.kind}
	return iface{t: types.NewPointer(t), v: &cell}
}

func (i *interpreter) fsInfo(n *fsNode, name string) iface {
	t := i.namedType(modPath+"/internal/zzverif", "FSInfo")
	var mode uint32
	size := int64(0)
	switch n.kind {
	case 1:
		mode = 1<<31 | 0755 // fs.ModeDir
	case 2:
		mode = 1<<27 | 0777 // fs.ModeSymlink
	default:
		mode = 0644
		if s, ok := n.data.(string); ok {
			size = int64(len(s))
		}
	}
	var mt value = int64(1 << 40)
	if n.mtime != nil {
		mt = n.mtime
	}
	return iface{t: t, v: structure{name, mode, size, mt}}
}

func lastComponent(fr *frame, name value, n *fsNode) string {
	if s, ok := name.(string); ok {
		s = strings.TrimRight(s, "/")
		if k := strings.LastIndexByte(s, '/'); k >= 0 {
			s = s[k+1:]
		}
		if s != "" {
			return s
		}
	}
	return n.name
}

type fsFile struct {
	node *fsNode
	name value
}

func init() {
	reg := func(name string, f externalFn) { externals[zzPkg+name] = f }
	reg("FSReset", func(fr *frame, a []value) value {
		delete(fr.i.side, "fs")
		return nil
	})
	reg("FSPath", func(fr *frame, a []value) value { return a[0] })
	reg("FSDir", func(fr *frame, a []value) value { fr.i.fs().mk(strArg(a[0]), 1); return nil })
	reg("FSFile", func(fr *frame, a []value) value {
		n := fr.i.fs().mk(strArg(a[0]), 0)
		n.data = a[1]
		n.mtime = fr.i.clockPeek()
		return nil
	})
	reg("FSSymlink", func(fr *frame, a []value) value {
		n := fr.i.fs().mk(strArg(a[0]), 2)
		n.target = strArg(a[1])
		return nil
	})
	reg("FSRemove", func(fr *frame, a []value) value {
		path := strArg(a[0])
		k := strings.LastIndex(path, "/")
		if k <= 0 {
			panic(engineErr{"FSRemove: need a path below a directory: " + path})
		}
		dir := fr.i.fs().mk(path[:k], 1)
		delete(dir.children, path[k+1:])
		return nil
	})
	reg("FSChdir", func(fr *frame, a []value) value { fr.i.fs().cwd = strArg(a[0]); return nil })

	externals["os.Getwd"] = func(fr *frame, a []value) value { return tuple{fr.i.fs().cwd, iface{}} }
	stat := func(op string, follow bool) externalFn {
		return func(fr *frame, a []value) value {
			n, e := fr.i.fsResolve(fr, a[0], follow)
			if e != nil {
				return tuple{iface{}, fr.i.fsError(op, a[0], e)}
			}
			return tuple{fr.i.fsInfo(n, lastComponent(fr, a[0], n)), iface{}}
		}
	}
	externals["os.Stat"] = stat("stat", true)
	externals["os.Lstat"] = stat("lstat", false)
	externals["os.Readlink"] = func(fr *frame, a []value) value {
		n, e := fr.i.fsResolve(fr, a[0], false)
		if e == nil && n.kind != 2 {
			e = &fsErr{fsEINVAL}
		}
		if e != nil {
			return tuple{"", fr.i.fsError("readlink", a[0], e)}
		}
		return tuple{n.target, iface{}}
	}
	externals["os.ReadFile"] = func(fr *frame, a []value) value {
		n, e := fr.i.fsResolve(fr, a[0], true)
		if e == nil && n.kind == 1 {
			e = &fsErr{fsEISDIR}
		}
		if e != nil {
			return tuple{[]value(nil), fr.i.fsError("open", a[0], e)}
		}
		return tuple{append([]value{}, bytesOfStr(n.data)...), iface{}}
	}
	externals["os.Open"] = func(fr *frame, a []value) value {
		i := fr.i
		n, e := i.fsResolve(fr, a[0], true)
		if e != nil {
			return tuple{(*value)(nil), i.fsError("open", a[0], e)}
		}
		var cell value = zero(i.namedType("os", "File"))
		p := &cell
		tab, _ := i.side["fsfiles"].(map[*value]*fsFile)
		if tab == nil {
			tab = map[*value]*fsFile{}
			i.side["fsfiles"] = tab
		}
		tab[p] = &fsFile{node: n, name: a[0]}
		return tuple{p, iface{}}
	}
	fileOf := func(fr *frame, v value) *fsFile {
		p, _ := v.(*value)
		tab, _ := fr.i.side["fsfiles"].(map[*value]*fsFile)
		if p == nil || tab == nil || tab[p] == nil {
			panic(engineErr{"UNSUPPORTED *os.File not opened through the model file system"})
		}
		return tab[p]
	}
	externals["(*os.File).Close"] = func(fr *frame, a []value) value { return iface{} }
	externals["(*os.File).Readdirnames"] = func(fr *frame, a []value) value {
		f := fileOf(fr, a[0])
		if f.node.kind != 1 {
			return tuple{[]value(nil), fr.i.fsError("readdirent", f.name, &fsErr{fsENOTDIR})}
		}
		names := make([]string, 0, len(f.node.children))
		for c := range f.node.children {
			names = append(names, c)
		}
		sort.Strings(names)
		out := make([]value, 0, len(names))
		for _, c := range names {
			out = append(out, c)
		}
		return tuple{out, iface{}}
	}
	// FSInfo.ModTime: the virtual clock reading at the last write, in the representation of time.Now
	externals["("+zzPkg+"FSInfo).ModTime"] = func(fr *frame, a []value) value {
		return structure{wallConst, a[0].(structure)[3], (*value)(nil)}
	}
	// the watcher's content digest, taken as ideal (collision free): the content itself
	externals["(*"+modPath+"/pkg/hotreload.FileWatcher).hashFile"] = func(fr *frame, a []value) value {
		n, e := fr.i.fsResolve(fr, a[1], true)
		if e == nil && n.kind != 0 {
			e = &fsErr{fsEISDIR}
		}
		if e != nil {
			return tuple{"", fr.i.fsError("open", a[1], e)}
		}
		return tuple{n.data, iface{}}
	}
	externals["(*os.File).Name"] = func(fr *frame, a []value) value { return fileOf(fr, a[0]).name }
	externals["(*os.File).Stat"] = func(fr *frame, a []value) value {
		f := fileOf(fr, a[0])
		return tuple{fr.i.fsInfo(f.node, lastComponent(fr, f.name, f.node)), iface{}}
	}
	externals["os.ReadDir"] = func(fr *frame, a []value) value {
		i := fr.i
		n, e := i.fsResolve(fr, a[0], true)
		if e == nil && n.kind != 1 {
			e = &fsErr{fsENOTDIR}
		}
		if e != nil {
			return tuple{[]value(nil), i.fsError("open", a[0], e)}
		}
		names := make([]string, 0, len(n.children))
		for c := range n.children {
			names = append(names, c)
		}
		sort.Strings(names)
		out := make([]value, 0, len(names))
		for _, c := range names {
			out = append(out, i.fsInfo(n.children[c], c))
		}
		return tuple{out, iface{}}
	}
	isKind := func(k int) externalFn {
		return func(fr *frame, a []value) value {
			e, _ := a[0].(iface)
			if e.t == nil {
				return false
			}
			if pt, ok := e.t.(*types.Pointer); ok {
				if nt, ok := pt.Elem().(*types.Named); ok && nt.Obj().Name() == "FSError" {
					st := (*e.v.(*value)).(structure)
					return asInt64(st[2]) == int64(k)
				}
			}
			return false
		}
	}
	externals["os.IsNotExist"] = isKind(fsENOENT)
	externals["os.IsExist"] = func(fr *frame, a []value) value { return false }
	externals["os.IsPermission"] = func(fr *frame, a []value) value { return false }
	externals["(syscall.Errno).Error"] = func(fr *frame, a []value) value { return fmt.Sprintf("errno %d", asInt64(a[0])) }
	externals["mime.TypeByExtension"] = func(fr *frame, a []value) value { return "" }

	// http.ServeContent / ServeFile: hand the bytes of the opened model file to the writer
	serve := func(fr *frame, w iface, req value, f *fsFile) {
		i := fr.i
		if f.node.kind != 0 {
			panic(engineErr{"UNSUPPORTED ServeContent of a directory"})
		}
		head := false
		if rp, ok := req.(*value); ok && rp != nil {
			rt := i.namedType("net/http", "Request")
			if ms, ok := (*structField((*rp).(structure), rt, "Method")).(string); ok {
				head = ms == "HEAD"
			}
		}
		if m := i.findMethod(w.t, "WriteHeader"); m != nil {
			call(i, fr, fr.callpos, m, []value{w.v, 200})
		}
		if !head {
			if m := i.findMethod(w.t, "Write"); m != nil {
				call(i, fr, fr.callpos, m, []value{w.v, append([]value{}, bytesOfStr(f.node.data)...)})
			}
		}
	}
	externals["net/http.ServeContent"] = func(fr *frame, a []value) value {
		rs := a[4].(iface)
		serve(fr, a[0].(iface), a[1], fileOf(fr, rs.v))
		return nil
	}
}

var _ = fmt.Sprintf
