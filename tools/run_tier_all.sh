#!/bin/sh
# usage: tools/run_tier_all.sh <quick|thorough> [ids...]   (development: every check's tier on /repo as it is, one after the other)
tier="$1"; shift
ids="$*"; [ -z "$ids" ] && ids="C16 C06 C07 C17 C11 C13 C05 C14 C20 C08 C09 C19 C12 C15 C04 C01 C10 C03 C02 C18"
out=tier_${tier}_results.txt
: > $out
for id in $ids; do
  t0=$(date +%s)
  VERIF_EVIDENCE_DIR=$(pwd)/ev_tier bin/check $id $tier > tier_${tier}_$id.log 2>&1; rc=$?
  t1=$(date +%s)
  echo "$id | exit $rc | $((t1-t0))s | $(grep -c '^VIOLATION' tier_${tier}_$id.log) violations | $(grep '^BROKEN-CHECK' tier_${tier}_$id.log | cut -c1-160 | tr '\n' ';')" >> $out
done
echo TIERDONE >> $out
