// Package zzverif is the harness runtime. Under the symbolic engine
// (/verif/engine) every function here is intercepted: inputs become SMT
// variables, Choice forks, Assert becomes a solver query. Compiled natively
// (go test -overlay) the same functions replay one concrete input vector,
// so every harness is also its own replay test.
package zzverif

import (
	"fmt"
	"math"
	"os"
	"reflect"
	"runtime"
	"strconv"
	"strings"
	"sync"
	"time"
)

// Ent is one recorded input (in call order).
type Ent struct {
	Name string `json:"name"`
	Kind string `json:"kind"`
	Val  uint64 `json:"val"`
}

var (
	mu     sync.Mutex
	vector []Ent
	pos    int
	env    map[string]string
	obs    []string
)

type assertFailure struct{ key string }
type vectorExhausted struct{ name string }

func next(name, kind string) uint64 {
	mu.Lock()
	defer mu.Unlock()
	for pos < len(vector) && (vector[pos].Kind == "clock" || vector[pos].Kind == "clock-internal") {
		pos++
	}
	if pos >= len(vector) {
		panic(vectorExhausted{name})
	}
	e := vector[pos]
	pos++
	if e.Kind != kind {
		panic(fmt.Sprintf("zzverif: replay vector mismatch at %d: harness asks %s %q, vector has %s %q", pos-1, kind, name, e.Kind, e.Name))
	}
	return e.Val
}

func Int64(name string) int64     { return int64(next(name, "i64")) }
func Int(name string) int         { return int(int64(next(name, "i64"))) }
func Uint64(name string) uint64   { return next(name, "u64") }
func Uint32(name string) uint32   { return uint32(next(name, "u32")) }
func Int32(name string) int32     { return int32(next(name, "i32")) }
func Byte(name string) byte       { return byte(next(name, "u8")) }
func Bool(name string) bool       { return next(name, "bool") != 0 }
func Float64(name string) float64 { return math.Float64frombits(next(name, "f64")) }

func Bytes(name string, n int) []byte {
	b := make([]byte, n)
	for i := range b {
		b[i] = byte(next(fmt.Sprintf("%s[%d]", name, i), "u8"))
	}
	return b
}

func String(name string, n int) string { return string(Bytes(name, n)) }

// ByteFrom is a symbolic byte constrained to the given alphabet (one
// disjunction for the solver, no forking).
func ByteFrom(name, alphabet string) byte {
	b := byte(next(name, "u8"))
	if !strings.Contains(alphabet, string([]byte{b})) && strings.IndexByte(alphabet, b) < 0 {
		panic("zzverif: replay byte outside its alphabet")
	}
	return b
}

// StringFrom is a string of n symbolic bytes over the alphabet.
func StringFrom(name string, n int, alphabet string) string {
	b := make([]byte, n)
	for i := range b {
		b[i] = ByteFrom(fmt.Sprintf("%s[%d]", name, i), alphabet)
	}
	return string(b)
}

// IntRange is a symbolic int in [lo,hi] (no forking).
func IntRange(name string, lo, hi int) int {
	v := int(int64(next(name, "i64")))
	if v < lo || v > hi {
		panic("zzverif: replay int outside its range")
	}
	return v
}

// Choice returns a value in [0,n); the engine explores all of them.
func Choice(name string, n int) int {
	v := int(next(name, "choice"))
	if v < 0 || v >= n {
		panic("zzverif: choice out of range")
	}
	return v
}

// Assume restricts the inputs considered. Natively a violated assumption
// means the vector does not belong to this harness.
func Assume(c bool) {
	if !c {
		panic("zzverif: assumption violated by replay vector")
	}
}

// Assert states the property. key names the finding bucket.
func Assert(c bool, key string) {
	if !c {
		panic(assertFailure{key})
	}
}

func Fail(key string) { panic(assertFailure{key}) }

// Reach is the vacuity witness of a harness.
func Reach(id string) {}

// Obligation declares that everything that follows must terminate within
// the engine's step bound; exceeding it is the violation (hang).
func Obligation(name string) {}

// Observe records a concrete observation compared between engine and native run.
func Observe(name string, v any) {
	mu.Lock()
	obs = append(obs, fmt.Sprintf("%s=%v", name, v))
	mu.Unlock()
}

// Symbolic reports whether the harness runs under the engine.
func Symbolic() bool { return false }

func Setenv(k, v string) {
	os.Setenv(k, v)
}

func IsConcrete(v any) bool { return true }

// Virtual clock. For native replay the checked packages are compiled with
// time.Now()/time.Since() redirected here by a go -overlay rewrite made at
// replay time (no committed source change), so that clock readings chosen by
// the solver can be reproduced.
var (
	clkBase   = time.Now()
	clkOff    time.Duration
	clkManual bool
)

// Now returns the virtual time. In automatic mode each call consumes the
// next recorded clock step from the replay vector.
func Now() time.Time {
	mu.Lock()
	defer mu.Unlock()
	if !clkManual {
		for pos < len(vector) && vector[pos].Kind == "clock-internal" {
			pos++
		}
		if pos < len(vector) && vector[pos].Kind == "clock" {
			clkOff += time.Duration(vector[pos].Val)
			pos++
		}
	}
	return clkBase.Add(clkOff)
}

func Since(t time.Time) time.Duration { return Now().Sub(t) }

// AdvanceClock moves the virtual clock and switches it to manual mode
// (Now() returns exactly the current virtual instant).
func AdvanceClock(d time.Duration) {
	mu.Lock()
	clkManual = true
	clkOff += d
	mu.Unlock()
}

func Yield() { runtime.Gosched(); time.Sleep(2 * time.Millisecond) }

func GoroutinesBlocked() int { return 0 }

func OpaqueString(name string, n int) string { return strings.Repeat("x", n) }

func Held(mu any) int { return 2 }

// Run executes harness f on vector v and classifies the outcome the same
// way the engine predicts it: "ok", "assert:<key>", "panic", "hang".
func Run(v []Ent, timeout time.Duration, f func()) (outcome string, detail string, observations []string) {
	mu.Lock()
	vector, pos, obs = v, 0, nil
	clkOff, clkManual = 0, false
	mu.Unlock()
	var maxAlloc uint64
	if v, err := strconv.ParseUint(os.Getenv("VERIF_MAX_ALLOC"), 10, 64); err == nil {
		maxAlloc = v
	}
	var ms0 runtime.MemStats
	if maxAlloc > 0 {
		runtime.ReadMemStats(&ms0)
	}
	done := make(chan [2]string, 1)
	go func() {
		defer func() {
			if p := recover(); p != nil {
				switch p := p.(type) {
				case assertFailure:
					done <- [2]string{"assert:" + p.key, ""}
				case vectorExhausted:
					done <- [2]string{"vector-exhausted", p.name}
				default:
					buf := make([]byte, 2048)
					n := runtime.Stack(buf, false)
					done <- [2]string{"panic", fmt.Sprintf("%v\n%s", p, buf[:n])}
				}
				return
			}
			done <- [2]string{"ok", ""}
		}()
		f()
	}()
	select {
	case r := <-done:
		mu.Lock()
		o := append([]string(nil), obs...)
		mu.Unlock()
		if maxAlloc > 0 && r[0] == "ok" {
			var ms1 runtime.MemStats
			runtime.ReadMemStats(&ms1)
			if d := ms1.TotalAlloc - ms0.TotalAlloc; d > maxAlloc {
				return "alloc", fmt.Sprintf("harness allocated %d bytes, bound %d", d, maxAlloc), o
			}
		}
		return r[0], r[1], o
	case <-time.After(timeout):
		return "hang", "no result after " + timeout.String(), nil
	}
}

// JSONCount / JSONValue expose, under the engine, the Go values handed to
// encoding/json encoders on this path (the engine models the encoder as a
// recorder). Natively the harness parses the recorded response body instead.
func JSONCount() int      { return 0 }
func JSONValue(k int) any { return nil }

// DeepEqualIgnoring is reflect.DeepEqual except that any value whose named
// type is called typeName compares equal (used to compare syntax trees
// regardless of source positions).
func DeepEqualIgnoring(a, b any, typeName string) bool {
	return deepEqIgn(reflect.ValueOf(a), reflect.ValueOf(b), typeName, map[[2]uintptr]bool{})
}

func deepEqIgn(x, y reflect.Value, ign string, seen map[[2]uintptr]bool) bool {
	if !x.IsValid() || !y.IsValid() {
		return x.IsValid() == y.IsValid()
	}
	if x.Type() != y.Type() {
		return false
	}
	if x.Type().Name() == ign {
		return true
	}
	switch x.Kind() {
	case reflect.Struct:
		for k := 0; k < x.NumField(); k++ {
			if !deepEqIgn(x.Field(k), y.Field(k), ign, seen) {
				return false
			}
		}
		return true
	case reflect.Array:
		for k := 0; k < x.Len(); k++ {
			if !deepEqIgn(x.Index(k), y.Index(k), ign, seen) {
				return false
			}
		}
		return true
	case reflect.Pointer:
		if x.IsNil() || y.IsNil() {
			return x.IsNil() == y.IsNil()
		}
		if x.Pointer() == y.Pointer() {
			return true
		}
		key := [2]uintptr{x.Pointer(), y.Pointer()}
		if seen[key] {
			return true
		}
		seen[key] = true
		return deepEqIgn(x.Elem(), y.Elem(), ign, seen)
	case reflect.Slice:
		if x.IsNil() != y.IsNil() || x.Len() != y.Len() {
			return false
		}
		for k := 0; k < x.Len(); k++ {
			if !deepEqIgn(x.Index(k), y.Index(k), ign, seen) {
				return false
			}
		}
		return true
	case reflect.Interface:
		if x.IsNil() || y.IsNil() {
			return x.IsNil() == y.IsNil()
		}
		return deepEqIgn(x.Elem(), y.Elem(), ign, seen)
	case reflect.Map:
		if x.IsNil() != y.IsNil() || x.Len() != y.Len() {
			return false
		}
		for _, k := range x.MapKeys() {
			v2 := y.MapIndex(k)
			if !v2.IsValid() || !deepEqIgn(x.MapIndex(k), v2, ign, seen) {
				return false
			}
		}
		return true
	case reflect.Func, reflect.Chan:
		return x.IsNil() && y.IsNil()
	case reflect.Bool:
		return x.Bool() == y.Bool()
	case reflect.Int, reflect.Int8, reflect.Int16, reflect.Int32, reflect.Int64:
		return x.Int() == y.Int()
	case reflect.Uint, reflect.Uint8, reflect.Uint16, reflect.Uint32, reflect.Uint64, reflect.Uintptr:
		return x.Uint() == y.Uint()
	case reflect.Float32, reflect.Float64:
		return x.Float() == y.Float()
	case reflect.String:
		return x.String() == y.String()
	}
	panic("DeepEqualIgnoring: unsupported kind " + x.Kind().String())
}

// ListeningServer returns the *http.Server that the engine's model has
// listening on addr (nil natively: native runs talk to the real socket).
func ListeningServer(addr string) any { return nil }

// ListeningCount is the number of modelled servers listening on addr (engine only).
func ListeningCount(addr string) int { return 1 }

var perturbN uint64

// Perturb is a native-only schedule perturbation for harness goroutines: it
// sleeps for a pseudo-random short time so that repeated native runs of a
// schedule-dependent counterexample cover different orders. Under the engine
// it does nothing (the scheduler explores the orders itself).
func Perturb() {
	mu.Lock()
	perturbN = perturbN*6364136223846793005 + 1442695040888963407
	n := perturbN >> 33
	mu.Unlock()
	switch n % 4 {
	case 0:
	case 1:
		runtime.Gosched()
	default:
		time.Sleep(time.Duration(n%400) * time.Microsecond)
	}
}

// SetJSONBody declares, under the engine, what the next json.Decoder.Decode
// yields (present=false: empty body). Natively it does nothing: the harness
// hands the handler a real body with the JSON text of the same value.
func SetJSONBody(v any, present bool) {}
