#!/bin/sh
# usage: tools/try_seed_wt.sh <property id> <seed id (dir under /verif/seeded)> [tier]
# Development-time helper: applies a seeded change in a scratch worktree of
# /repo's HEAD, runs the property's check against that worktree
# (VERIF_REPO_DIR), and removes the worktree. /repo itself is not touched.
id="$1"; seed="$2"; tier="${3:-quick}"
wt=/tmp/ts/$seed
git -C /repo worktree remove --force $wt 2>/dev/null; rm -rf $wt; mkdir -p /tmp/ts
git -C /repo worktree add --detach $wt HEAD >/dev/null 2>&1 || { echo "worktree failed"; exit 2; }
( cd $wt && git apply /verif/seeded/$seed/patch.diff ) || { echo "patch does not apply"; git -C /repo worktree remove --force $wt; exit 2; }
cd /verif
VERIF_REPO_DIR=$wt VERIF_EVIDENCE_DIR=/tmp/ts/ev-$seed engine/gosym -verif /verif -check checks/$id.json -tier $tier > /tmp/ts/$seed.log 2>&1; rc=$?
git -C /repo worktree remove --force $wt; rm -rf $wt
echo "try_seed_wt: $id $seed -> exit $rc"
grep -c "^VIOLATION" /tmp/ts/$seed.log
exit $rc
