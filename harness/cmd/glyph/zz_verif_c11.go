package main

// C11 — rate limits bound admitted traffic per client (declared limit -> bucket).

import (
	"net/http"
	"strconv"
	"time"

	"github.com/glyphlang/glyph/internal/zzverif"
	"github.com/glyphlang/glyph/pkg/ast"
	"github.com/glyphlang/glyph/pkg/server"
)

var zzWindows = []struct {
	spelling string
	d        time.Duration
}{
	{"min", time.Minute}, {"sec", time.Second}, {"hour", time.Hour}, {"day", 24 * time.Hour},
	{"s", time.Second}, {"h", time.Hour}, {"d", 24 * time.Hour}, {" MIN ", time.Minute}, {"Second", time.Second}, {"hr", time.Hour}, {"minute", time.Minute},
}

// zzBurst fires requests at the current virtual instant until one is
// rejected (at most max) and returns how many were admitted.
func zzBurst(h server.RouteHandler, addr string, max int, runs *int) int {
	admitted := 0
	for k := 0; k < max; k++ {
		before := *runs
		st, _ := zzServe(h, &http.Request{Method: "GET", Header: http.Header{}, RemoteAddr: addr})
		if st == 429 {
			zzverif.Assert(*runs == before, "rejected-request-ran-the-body")
			return admitted
		}
		zzverif.Assert(*runs == before+1, "admitted-request-did-not-run-the-body")
		admitted++
	}
	return admitted
}

// The property's bound: in any interval of length T a client is admitted at
// most N x (1 + T/window) requests. The adversary asks greedily at t=0 and at
// t=T for T in {0, window/2, window, 2*window}.
func zzDeclaredLimit(maxN int) {
	n := 1 + zzverif.Choice("N", maxN)
	w := zzWindows[zzverif.Choice("window", len(zzWindows))]
	runs := 0
	h := zzChain(&ast.Route{Path: "/p", Method: ast.Get, RateLimit: &ast.RateLimit{Requests: uint32(n), Window: w.spelling}},
		func(ctx *server.Context) error { runs++; return nil })
	zzverif.AdvanceClock(0)
	cap := 70 * maxN
	a0 := zzBurst(h, "10.0.0.1:1", cap, &runs)
	zzverif.Assert(a0 <= n, "burst-exceeds-declared-N window="+w.spelling)
	zzverif.Assert(a0 >= n, "client-within-rate-rejected window="+w.spelling)
	// half-window multiples: 2T/window in {1,2,4}
	halves := []int{1, 2, 4}[zzverif.Choice("T", 3)]
	zzverif.AdvanceClock(time.Duration(halves) * w.d / 2)
	a1 := zzBurst(h, "10.0.0.1:2", cap, &runs)
	// admitted in [0,T] <= N*(1+T/window)  <=>  2*(a0+a1) <= N*(2+halves)
	zzverif.Assert(2*(a0+a1) <= n*(2+halves), "admitted-exceeds-N(1+T/window) window="+w.spelling)
	// a full window later the client has its whole budget back
	if halves >= 2 {
		zzverif.Assert(a1 >= n, "budget-not-refilled-after-a-window window="+w.spelling)
	}
	zzverif.Reach("declared-limit")
}

// Idle time must not pile up as credit: after one request and an idle gap (the
// bucket is full again) a burst at one instant is still admitted at most N
// times, and again at most N times a moment later.
func VerifC11_IdleCredit() {
	n := 1 + zzverif.Choice("N", 3)
	w := zzWindows[zzverif.Choice("window", 4)] // min, sec, hour, day
	runs := 0
	h := zzChain(&ast.Route{Path: "/p", Method: ast.Get, RateLimit: &ast.RateLimit{Requests: uint32(n), Window: w.spelling}},
		func(ctx *server.Context) error { runs++; return nil })
	zzverif.AdvanceClock(0)
	first := zzverif.Choice("first", 3) // nothing, one request, a full burst
	a0 := 0
	switch first {
	case 1:
		a0 = zzBurst(h, "10.0.0.1:1", 1, &runs)
	case 2:
		a0 = zzBurst(h, "10.0.0.1:1", 70*3, &runs)
	}
	gap := []int{1, 2, 4, 8}[zzverif.Choice("gap", 4)] // in half windows
	zzverif.AdvanceClock(time.Duration(gap) * w.d / 2)
	a1 := zzBurst(h, "10.0.0.1:2", 70*3, &runs)
	if w.spelling == "min" {
		zzverif.Assert(a1 <= n, "burst-after-idle-time-exceeds-declared-N")
		zzverif.Assert(2*(a0+a1) <= n*(2+gap), "admitted-exceeds-N(1+T/window) after idle time")
	}
	// a moment later nothing more is admitted than the elapsed time has earned
	zzverif.AdvanceClock(time.Millisecond)
	a2 := zzBurst(h, "10.0.0.1:3", 70*3, &runs)
	if w.spelling == "min" {
		zzverif.Assert(a2 <= 1, "credit-left-over-after-a-full-burst")
	}
	zzverif.Reach("idle")
}

func VerifC11_DeclaredLimit() { zzDeclaredLimit(2) }
func VerifC11_DeclaredLimit3() { zzDeclaredLimit(3) }

// One client's traffic never consumes another's budget; forged forwarding
// headers and the source port do not change identity.
func VerifC11_Isolation() {
	n := zzverif.IntRange("N", 1, 3)
	runs := 0
	h := zzChain(&ast.Route{Path: "/p", Method: ast.Get, RateLimit: &ast.RateLimit{Requests: uint32(n), Window: "min"}},
		func(ctx *server.Context) error { runs++; return nil })
	zzverif.AdvanceClock(0)
	a := zzBurst(h, "10.0.0.1:1", 10, &runs)
	b := zzBurst(h, "10.0.0.2:1", 10, &runs)
	zzverif.Assert(b == a, "second-client-budget-depends-on-first-client")
	// exhausted client tries again from another port with a forged header
	req := &http.Request{Method: "GET", Header: http.Header{}, RemoteAddr: "10.0.0.1:" + zzverif.StringFrom("port", 2, "0123456789")}
	req.Header["X-Forwarded-For"] = []string{zzverif.StringFrom("xff", 3, "0123456789.,a ")}
	req.Header["X-Real-Ip"] = []string{"9.9.9.9"}
	st, _ := zzServe(h, req)
	zzverif.Assert(st == 429, "identity-forged-through-port-or-forwarding-header")
	zzverif.Reach("isolation")
}

func VerifC11_Twin() {
	runs := 0
	h := zzChain(&ast.Route{Path: "/p", Method: ast.Get, RateLimit: &ast.RateLimit{Requests: 2, Window: "min"}},
		func(ctx *server.Context) error { runs++; return nil })
	zzverif.AdvanceClock(0)
	a := zzBurst(h, "10.0.0.1:1", 10, &runs)
	zzverif.Assert(a < zzverif.IntRange("bound", 0, 2), "twin-must-fail")
	zzverif.Reach("twin")
}

// Two first requests of one client at the same moment share one bucket: with
// N = 1 at most one of them is admitted (concurrent get-or-create).
func VerifC11_ConcurrentFirstRequests() {
	runs := 0
	h := zzChain(&ast.Route{Path: "/p", Method: ast.Get, RateLimit: &ast.RateLimit{Requests: 1, Window: "min"}},
		func(ctx *server.Context) error { runs++; return nil })
	zzverif.AdvanceClock(0)
	done := make(chan int, 2)
	for k := 0; k < 2; k++ {
		go func() {
			zzverif.Perturb()
			st, _ := zzServe(h, &http.Request{Method: "GET", Header: http.Header{}, RemoteAddr: "10.0.0.9:1"})
			done <- st
		}()
	}
	a, b := <-done, <-done
	admitted := 0
	if a != 429 {
		admitted++
	}
	if b != 429 {
		admitted++
	}
	zzverif.Assert(admitted == 1, "concurrent first requests: not exactly one admitted for N=1")
	// and the client stays limited afterwards
	st, _ := zzServe(h, &http.Request{Method: "GET", Header: http.Header{}, RemoteAddr: "10.0.0.9:2"})
	zzverif.Assert(st == 429, "concurrent first requests: budget available again right afterwards")
	zzverif.Reach("concurrent-first")
}

// The table of clients is bounded (stale entries are evicted once it grows
// past a cap, scaled down by the check configuration): eviction never hands an
// exhausted client a fresh budget, and never forgets a recent client.
func VerifC11_EvictionKeepsRecentClients() {
	runs := 0
	n := 1 + zzverif.Choice("N", 2)
	h := zzChain(&ast.Route{Path: "/p", Method: ast.Get, RateLimit: &ast.RateLimit{Requests: uint32(n), Window: "min"}},
		func(ctx *server.Context) error { runs++; return nil })
	zzverif.AdvanceClock(0)
	a0 := zzBurst(h, "10.0.0.1:1", 10, &runs) // X uses its budget up
	zzverif.Assert(a0 == n, "eviction: first burst not N")
	others := 3 + zzverif.Choice("others", 3)
	if !zzverif.Symbolic() {
		others = 10050 // natively the real cap (10000 entries) applies
	}
	for k := 0; k < others; k++ {
		addr := "10." + strconv.Itoa(1+k/60000) + "." + strconv.Itoa((k/250)%240) + "." + strconv.Itoa(1+k%250) + ":1"
		zzServe(h, &http.Request{Method: "GET", Header: http.Header{}, RemoteAddr: addr})
	}
	zzverif.AdvanceClock(time.Duration(zzverif.Choice("pause", 2)) * time.Second)
	a1 := zzBurst(h, "10.0.0.1:2", 10, &runs)
	zzverif.Assert(a1 == 0, "eviction: an exhausted client was admitted again after other clients filled the table")
	zzverif.Reach("eviction")
}
