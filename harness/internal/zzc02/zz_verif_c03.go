package zzc02

// C03 — optimisation never changes behaviour: OptBasic / OptAggressive
// bytecode against OptNone bytecode on the VM, for syntax trees built through
// the library API (pointer-form nodes, which is what the optimizer rewrites).

import (
	"github.com/glyphlang/glyph/internal/zzverif"
	"github.com/glyphlang/glyph/pkg/ast"
	"github.com/glyphlang/glyph/pkg/compiler"
	"github.com/glyphlang/glyph/pkg/vm"
)

// anyRuntime returns a VM value of a Choice-selected kind with symbolic payload.
func anyRuntime(name string, ntags int) (vm.Value, string) {
	switch zzverif.Choice(name+".tag", ntags) {
	case 0:
		return vm.IntValue{Val: zzverif.Int64(name + ".int")}, "int"
	case 1:
		return vm.FloatValue{Val: zzverif.Float64(name + ".float")}, "float"
	case 2:
		return vm.BoolValue{Val: zzverif.Bool(name + ".bool")}, "bool"
	case 3:
		return vm.StringValue{Val: zzverif.StringFrom(name+".str", 1, "ab1 ")}, "str"
	default:
		return vm.NullValue{}, "null"
	}
}

func ptrLit(name string, ntags int) (*ast.LiteralExpr, string) {
	e, t := anyOperand(name, ntags)
	l := e.(ast.LiteralExpr)
	return &l, t
}

func runLevel(r *ast.Route, level compiler.OptimizationLevel, input vm.Value) (outcome, bool) {
	bc, err := compiler.NewCompilerWithOptLevel(level).CompileRoute(r)
	if err != nil {
		return outcome{}, false
	}
	m := vm.NewVM()
	m.SetLocal("query", vm.ObjectValue{Val: map[string]vm.Value{}})
	m.SetLocal("input", input)
	m.SetLocal("headers", vm.ObjectValue{Val: map[string]vm.Value{}})
	m.SetMaxSteps(2000)
	res, err := m.Execute(bc)
	if err != nil {
		return outcome{isErr: true}, true
	}
	return outcome{status: 200, val: fromVM(res)}, true
}

// compareLevels runs the route at -O0, -O1, -O2 and asserts equal outcomes.
func compareLevels(shape string, mk func() *ast.Route, input vm.Value) {
	base, ok0 := runLevel(mk(), compiler.OptNone, input)
	for _, lv := range []compiler.OptimizationLevel{compiler.OptBasic, compiler.OptAggressive} {
		name := "O1"
		if lv == compiler.OptAggressive {
			name = "O2"
		}
		got, ok := runLevel(mk(), lv, input)
		if ok0 != ok {
			zzverif.Fail(shape + " compile-outcome-differs")
			continue
		}
		if !ok {
			continue
		}
		// finding key = program shape only (level and outcome classes are in the message)
		_ = name
		ci, cc := class(base), class(got)
		if ci != cc {
			zzverif.Fail(shape)
			continue
		}
		if !base.isErr {
			zzverif.Assert(sameValue(base.val, got.val), shape)
		}
	}
}

func pret(e ast.Expr) ast.Statement { return &ast.ReturnStatement{Value: e} }
func pvar(n string) ast.Expr        { return &ast.VariableExpr{Name: n} }

// T1: algebraic identities / strength reduction / folding with one free variable.
func VerifC03_Identities() {
	op := ast.BinOp(zzverif.Choice("op", 13))
	lit, lt := ptrLit("lit", 3) // int, float, bool literal with symbolic payload
	in, it := anyRuntime("input", 5)
	side := zzverif.Choice("side", 3)
	var sideName string
	mk := func() *ast.Route {
		var e ast.Expr
		switch side {
		case 0:
			e, sideName = &ast.BinaryOpExpr{Op: op, Left: pvar("input"), Right: lit}, "var-lit"
		case 1:
			e, sideName = &ast.BinaryOpExpr{Op: op, Left: lit, Right: pvar("input")}, "lit-var"
		default:
			e, sideName = &ast.BinaryOpExpr{Op: op, Left: pvar("input"), Right: pvar("input")}, "var-var"
		}
		return routeOf(pret(e))
	}
	mk()
	compareLevels("identity "+sideName+" "+op.String()+" lit:"+lt+" input:"+it, mk, in)
	zzverif.Reach("identities")
}

// T5: literal folding, both operands literals.
func VerifC03_Folding() {
	op := ast.BinOp(zzverif.Choice("op", 13))
	l, lt := ptrLit("l", 4)
	r, rt := ptrLit("r", 4)
	mk := func() *ast.Route { return routeOf(pret(&ast.BinaryOpExpr{Op: op, Left: l, Right: r})) }
	compareLevels("fold "+op.String()+" "+lt+" "+rt, mk, vm.NullValue{})
	zzverif.Reach("folding")
}

// T2: a constant assigned on a path that may not execute.
func VerifC03_BranchAssign() {
	l1 := &ast.LiteralExpr{Value: ast.IntLiteral{Value: zzverif.Int64("a")}}
	l2 := &ast.LiteralExpr{Value: ast.IntLiteral{Value: zzverif.Int64("b")}}
	form := zzverif.Choice("form", 4)
	in := vm.BoolValue{Val: zzverif.Bool("cond")}
	name := ""
	mk := func() *ast.Route {
		assign2 := ast.Statement(&ast.ReassignStatement{Target: "x", Value: l2})
		switch form {
		case 0:
			name = "if-then"
			return routeOf(&ast.AssignStatement{Target: "x", Value: l1},
				&ast.IfStatement{Condition: pvar("input"), ThenBlock: []ast.Statement{assign2}},
				pret(pvar("x")))
		case 1:
			name = "if-else"
			return routeOf(&ast.AssignStatement{Target: "x", Value: l1},
				&ast.IfStatement{Condition: pvar("input"), ThenBlock: []ast.Statement{}, ElseBlock: []ast.Statement{assign2}},
				pret(pvar("x")))
		case 2:
			name = "while-zero-or-once"
			return routeOf(&ast.AssignStatement{Target: "x", Value: l1},
				&ast.AssignStatement{Target: "c", Value: pvar("input")},
				&ast.WhileStatement{Condition: pvar("c"), Body: []ast.Statement{assign2, &ast.ReassignStatement{Target: "c", Value: &ast.LiteralExpr{Value: ast.BoolLiteral{Value: false}}}}},
				pret(pvar("x")))
		default:
			name = "nested-if"
			return routeOf(&ast.AssignStatement{Target: "x", Value: l1},
				&ast.IfStatement{Condition: pvar("input"), ThenBlock: []ast.Statement{
					&ast.IfStatement{Condition: pvar("input"), ThenBlock: []ast.Statement{assign2}}}},
				pret(&ast.BinaryOpExpr{Op: ast.Add, Left: pvar("x"), Right: &ast.LiteralExpr{Value: ast.IntLiteral{Value: 1}}}))
		}
	}
	mk()
	compareLevels("branch-assign "+name, mk, in)
	zzverif.Reach("branch-assign")
}

// T4: copy propagation / CSE across a reassignment of the source.
func VerifC03_CopyCSE() {
	// concrete literals: the CSE key is built with Sprintf("%d"), and the
	// defects these templates target do not depend on the literal values
	k := &ast.LiteralExpr{Value: ast.IntLiteral{Value: 5}}
	n := &ast.LiteralExpr{Value: ast.IntLiteral{Value: 1}}
	form := zzverif.Choice("form", 3)
	in := vm.IntValue{Val: zzverif.Int64("input")}
	name := ""
	mk := func() *ast.Route {
		switch form {
		case 0:
			name = "copy-then-reassign-source"
			return routeOf(&ast.AssignStatement{Target: "x", Value: pvar("input")},
				&ast.AssignStatement{Target: "y", Value: pvar("x")},
				&ast.ReassignStatement{Target: "x", Value: k},
				pret(pvar("y")))
		case 1:
			name = "cse-then-reassign-operand"
			return routeOf(&ast.AssignStatement{Target: "x", Value: pvar("input")},
				&ast.AssignStatement{Target: "a", Value: &ast.BinaryOpExpr{Op: ast.Add, Left: pvar("x"), Right: n}},
				&ast.ReassignStatement{Target: "x", Value: k},
				&ast.AssignStatement{Target: "b", Value: &ast.BinaryOpExpr{Op: ast.Add, Left: pvar("x"), Right: n}},
				pret(pvar("b")))
		default:
			name = "cse-target-reassigned"
			return routeOf(&ast.AssignStatement{Target: "x", Value: pvar("input")},
				&ast.AssignStatement{Target: "a", Value: &ast.BinaryOpExpr{Op: ast.Add, Left: pvar("x"), Right: n}},
				&ast.ReassignStatement{Target: "a", Value: k},
				&ast.AssignStatement{Target: "b", Value: &ast.BinaryOpExpr{Op: ast.Add, Left: pvar("x"), Right: n}},
				pret(pvar("b")))
		}
	}
	mk()
	compareLevels("copy-cse "+name, mk, in)
	zzverif.Reach("copy-cse")
}

// T6: code after a return nested in a branch; loop-invariant hoisting.
func VerifC03_ReturnAndLoops() {
	a := &ast.LiteralExpr{Value: ast.IntLiteral{Value: zzverif.Int64("a")}}
	b := &ast.LiteralExpr{Value: ast.IntLiteral{Value: zzverif.Int64("b")}}
	form := zzverif.Choice("form", 3)
	in := vm.BoolValue{Val: zzverif.Bool("cond")}
	tval := zzverif.Bool("t")
	name := ""
	mk := func() *ast.Route {
		switch form {
		case 0:
			name = "return-in-branch"
			return routeOf(&ast.IfStatement{Condition: pvar("input"), ThenBlock: []ast.Statement{pret(a)}}, pret(b))
		case 1:
			name = "invariant-in-zero-trip-loop"
			return routeOf(&ast.AssignStatement{Target: "x", Value: a},
				&ast.AssignStatement{Target: "c", Value: pvar("input")},
				&ast.WhileStatement{Condition: pvar("c"), Body: []ast.Statement{
					&ast.AssignStatement{Target: "x", Value: b},
					&ast.ReassignStatement{Target: "c", Value: &ast.LiteralExpr{Value: ast.BoolLiteral{Value: false}}}}},
				pret(pvar("x")))
		default:
			name = "constant-condition"
			return routeOf(&ast.AssignStatement{Target: "t", Value: &ast.LiteralExpr{Value: ast.BoolLiteral{Value: tval}}},
				&ast.IfStatement{Condition: pvar("t"), ThenBlock: []ast.Statement{pret(a)}, ElseBlock: []ast.Statement{pret(b)}},
				pret(&ast.LiteralExpr{Value: ast.NullLiteral{}}))
		}
	}
	mk()
	compareLevels("return-loops "+name, mk, in)
	zzverif.Reach("return-loops")
}

// T7: two free variables of every runtime kind (the second one arrives as a
// path parameter): expressions that are equal only up to operand order are not
// the same expression (+ concatenates strings and arrays), loops whose body ends
// by assigning the loop variable a constant.
var zzOther vm.Value

func runLevel2(r *ast.Route, level compiler.OptimizationLevel, input, other vm.Value) (outcome, bool) {
	bc, err := compiler.NewCompilerWithOptLevel(level).CompileRoute(r)
	if err != nil {
		return outcome{}, false
	}
	m := vm.NewVM()
	m.SetLocal("query", vm.ObjectValue{Val: map[string]vm.Value{}})
	m.SetLocal("input", input)
	m.SetLocal("other", other)
	m.SetLocal("headers", vm.ObjectValue{Val: map[string]vm.Value{}})
	m.SetMaxSteps(2000)
	res, err := m.Execute(bc)
	if err != nil {
		return outcome{isErr: true}, true
	}
	return outcome{status: 200, val: fromVM(res)}, true
}

func VerifC03_TwoInputs() {
	in, it := anyRuntime("input", 4)
	ot, ott := anyRuntime("other", 4)
	op := []ast.BinOp{ast.Add, ast.Mul, ast.Sub, ast.Eq, ast.Lt}[zzverif.Choice("op", 5)]
	form := zzverif.Choice("form", 6)
	k := &ast.LiteralExpr{Value: ast.IntLiteral{Value: zzverif.Int64("k")}}
	name := ""
	mk := func() *ast.Route {
		r := &ast.Route{Path: "/t/:other", Method: ast.Get}
		switch form {
		case 0:
			name = "cse-commuted-operands"
			r.Body = []ast.Statement{
				&ast.AssignStatement{Target: "p", Value: &ast.BinaryOpExpr{Op: op, Left: pvar("input"), Right: pvar("other")}},
				&ast.AssignStatement{Target: "q", Value: &ast.BinaryOpExpr{Op: op, Left: pvar("other"), Right: pvar("input")}},
				pret(pvar("q"))}
		case 1:
			name = "cse-same-operands"
			r.Body = []ast.Statement{
				&ast.AssignStatement{Target: "p", Value: &ast.BinaryOpExpr{Op: op, Left: pvar("input"), Right: pvar("other")}},
				&ast.AssignStatement{Target: "q", Value: &ast.BinaryOpExpr{Op: op, Left: pvar("input"), Right: pvar("other")}},
				pret(&ast.ArrayExpr{Elements: []ast.Expr{pvar("p"), pvar("q")}})}
		case 3:
			name = "else-arm-reads-what-then-arm-assigns"
			r.Body = []ast.Statement{
				&ast.AssignStatement{Target: "x", Value: pvar("other")},
				&ast.IfStatement{Condition: &ast.BinaryOpExpr{Op: ast.Lt, Left: pvar("input"), Right: k},
					ThenBlock: []ast.Statement{&ast.ReassignStatement{Target: "x", Value: &ast.LiteralExpr{Value: ast.IntLiteral{Value: 980}}}, pret(pvar("x"))},
					ElseBlock: []ast.Statement{pret(&ast.ArrayExpr{Elements: []ast.Expr{pvar("x")}})}},
				pret(&ast.LiteralExpr{Value: ast.NullLiteral{}})}
		case 4:
			name = "then-arm-copy-else-arm-copy"
			r.Body = []ast.Statement{
				&ast.AssignStatement{Target: "x", Value: &ast.LiteralExpr{Value: ast.IntLiteral{Value: 1}}},
				&ast.AssignStatement{Target: "y", Value: pvar("other")},
				&ast.IfStatement{Condition: &ast.BinaryOpExpr{Op: ast.Lt, Left: pvar("input"), Right: k},
					ThenBlock: []ast.Statement{&ast.ReassignStatement{Target: "x", Value: pvar("y")}},
					ElseBlock: []ast.Statement{&ast.ReassignStatement{Target: "y", Value: pvar("x")}}},
				pret(&ast.ArrayExpr{Elements: []ast.Expr{pvar("x"), pvar("y")}})}
		case 5:
			name = "guard-clause-assigns-operand-then-operand-reassigned"
			r.Body = []ast.Statement{
				&ast.AssignStatement{Target: "p", Value: pvar("input")},
				&ast.AssignStatement{Target: "t", Value: &ast.BinaryOpExpr{Op: op, Left: pvar("p"), Right: pvar("other")}},
				&ast.IfStatement{Condition: &ast.BinaryOpExpr{Op: ast.Lt, Left: pvar("input"), Right: k},
					ThenBlock: []ast.Statement{&ast.ReassignStatement{Target: "p", Value: &ast.LiteralExpr{Value: ast.IntLiteral{Value: 980}}}, pret(pvar("p"))}},
				&ast.ReassignStatement{Target: "p", Value: pvar("other")},
				&ast.AssignStatement{Target: "u", Value: &ast.BinaryOpExpr{Op: op, Left: pvar("p"), Right: pvar("other")}},
				pret(&ast.ArrayExpr{Elements: []ast.Expr{pvar("u"), pvar("t")}})}
		default:
			name = "loop-ends-by-assigning-constant"
			r.Body = []ast.Statement{
				&ast.AssignStatement{Target: "i", Value: pvar("input")},
				&ast.AssignStatement{Target: "n", Value: &ast.LiteralExpr{Value: ast.IntLiteral{Value: 0}}},
				&ast.WhileStatement{Condition: &ast.BinaryOpExpr{Op: ast.Lt, Left: pvar("i"), Right: k}, Body: []ast.Statement{
					&ast.ReassignStatement{Target: "n", Value: &ast.BinaryOpExpr{Op: ast.Add, Left: pvar("n"), Right: &ast.LiteralExpr{Value: ast.IntLiteral{Value: 1}}}},
					&ast.ReassignStatement{Target: "i", Value: k}}},
				pret(pvar("n"))}
		}
		return r
	}
	mk()
	shape := "two-inputs " + name + " " + it + " " + ott
	base, ok0 := runLevel2(mk(), compiler.OptNone, in, ot)
	for _, lv := range []compiler.OptimizationLevel{compiler.OptBasic, compiler.OptAggressive} {
		got, ok := runLevel2(mk(), lv, in, ot)
		if ok0 != ok {
			zzverif.Fail(shape + " compile-outcome-differs")
			continue
		}
		if !ok {
			continue
		}
		if class(base) != class(got) {
			zzverif.Fail(shape)
			continue
		}
		if !base.isErr {
			zzverif.Assert(sameValue(base.val, got.val), shape)
		}
	}
	zzverif.Reach("two-inputs")
}

func VerifC03_Twin() {
	a := &ast.LiteralExpr{Value: ast.IntLiteral{Value: zzverif.Int64("a")}}
	r := routeOf(pret(&ast.BinaryOpExpr{Op: ast.Add, Left: a, Right: &ast.LiteralExpr{Value: ast.IntLiteral{Value: 1}}}))
	got, ok := runLevel(r, compiler.OptAggressive, vm.NullValue{})
	zzverif.Assume(ok)
	zzverif.Assert(!got.isErr && sameValue(got.val, int64(5)), "twin-must-fail")
	zzverif.Reach("twin")
}
