// Package zzc02 holds the differential harnesses for C02 (compiled vs
// interpreted execution) and C03 (optimisation levels). It exists only as an
// overlay: nothing here is committed to the repository.
package zzc02

import (
	"math"

	"github.com/glyphlang/glyph/internal/zzverif"
	"github.com/glyphlang/glyph/pkg/ast"
	"github.com/glyphlang/glyph/pkg/compiler"
	"github.com/glyphlang/glyph/pkg/interpreter"
	"github.com/glyphlang/glyph/pkg/vm"
)

var tagNames = []string{"int", "float", "bool", "str", "null", "arr", "obj"}

// anyOperand returns a literal expression of a Choice-selected kind whose
// payload is symbolic, and the kind's name.
func anyOperand(name string, ntags int) (ast.Expr, string) {
	t := zzverif.Choice(name+".tag", ntags)
	switch t {
	case 0:
		return ast.LiteralExpr{Value: ast.IntLiteral{Value: zzverif.Int64(name + ".int")}}, "int"
	case 1:
		return ast.LiteralExpr{Value: ast.FloatLiteral{Value: zzverif.Float64(name + ".float")}}, "float"
	case 2:
		return ast.LiteralExpr{Value: ast.BoolLiteral{Value: zzverif.Bool(name + ".bool")}}, "bool"
	case 3:
		return ast.LiteralExpr{Value: ast.StringLiteral{Value: zzverif.StringFrom(name+".str", 1, "ab1 ")}}, "str"
	case 4:
		return ast.LiteralExpr{Value: ast.NullLiteral{}}, "null"
	case 5:
		return ast.ArrayExpr{Elements: []ast.Expr{ast.LiteralExpr{Value: ast.IntLiteral{Value: zzverif.Int64(name + ".elem")}}}}, "arr"
	default:
		return ast.ObjectExpr{Fields: []ast.ObjectField{{Key: "k", Value: ast.LiteralExpr{Value: ast.IntLiteral{Value: zzverif.Int64(name + ".field")}}}}}, "obj"
	}
}

type outcome struct {
	isErr  bool
	status int
	val    interface{} // normalised Go value
}

func routeOf(body ...ast.Statement) *ast.Route {
	return &ast.Route{Path: "/t", Method: ast.Get, Body: body}
}

func runInterpreted(r *ast.Route) outcome {
	in := interpreter.NewInterpreter()
	resp, err := in.ExecuteRoute(r, &interpreter.Request{Path: "/t", Method: "GET"})
	if err != nil {
		return outcome{isErr: true}
	}
	return outcome{status: resp.StatusCode, val: resp.Body}
}

func fromVM(v vm.Value) interface{} {
	switch x := v.(type) {
	case vm.NullValue:
		return nil
	case vm.IntValue:
		return x.Val
	case vm.FloatValue:
		return x.Val
	case vm.BoolValue:
		return x.Val
	case vm.StringValue:
		return x.Val
	case vm.ArrayValue:
		out := make([]interface{}, len(x.Val))
		for i, e := range x.Val {
			out[i] = fromVM(e)
		}
		return out
	case vm.ObjectValue:
		out := make(map[string]interface{}, len(x.Val))
		for k, e := range x.Val {
			out[k] = fromVM(e)
		}
		return out
	}
	return v
}

// runCompiled mirrors cmd/glyph: compile at the level `glyph run` uses, run on
// a fresh VM, unwrap the status marker. ok=false: the compiler rejected the
// route, which makes the server fall back to the interpreter (no divergence).
func runCompiled(r *ast.Route, level compiler.OptimizationLevel) (outcome, bool) {
	bc, err := compiler.NewCompilerWithOptLevel(level).CompileRoute(r)
	if err != nil {
		return outcome{}, false
	}
	m := vm.NewVM()
	m.SetLocal("query", vm.ObjectValue{Val: map[string]vm.Value{}})
	m.SetLocal("input", vm.NullValue{})
	m.SetLocal("headers", vm.ObjectValue{Val: map[string]vm.Value{}})
	m.SetMaxSteps(5000)
	res, err := m.Execute(bc)
	if err != nil {
		return outcome{isErr: true}, true
	}
	status := 200
	if obj, ok := res.(vm.ObjectValue); ok {
		if st, ok := obj.Val[compiler.StatusKey]; ok {
			if iv, ok := st.(vm.IntValue); ok {
				status = int(iv.Val)
				res = obj.Val[compiler.BodyKey]
			}
		}
	}
	return outcome{status: status, val: fromVM(res)}, true
}

func class(o outcome) string {
	if o.isErr {
		return "error"
	}
	switch o.val.(type) {
	case nil:
		return "null"
	case int64, int:
		return "int"
	case float64:
		return "float"
	case bool:
		return "bool"
	case string:
		return "str"
	case []interface{}:
		return "arr"
	case map[string]interface{}:
		return "obj"
	}
	return "other"
}

func sameValue(a, b interface{}) bool {
	switch x := a.(type) {
	case nil:
		return b == nil
	case int64:
		y, ok := b.(int64)
		return ok && x == y
	case float64:
		y, ok := b.(float64)
		if !ok {
			return false
		}
		if x != x && y != y {
			return true
		}
		return x == y && math.Signbit(x) == math.Signbit(y)
	case bool:
		y, ok := b.(bool)
		return ok && x == y
	case string:
		y, ok := b.(string)
		return ok && x == y
	case []interface{}:
		y, ok := b.([]interface{})
		if !ok || len(x) != len(y) {
			return false
		}
		for i := range x {
			if !sameValue(x[i], y[i]) {
				return false
			}
		}
		return true
	case map[string]interface{}:
		y, ok := b.(map[string]interface{})
		if !ok || len(x) != len(y) {
			return false
		}
		for k, v := range x {
			w, ok := y[k]
			if !ok || !sameValue(v, w) {
				return false
			}
		}
		return true
	}
	return false
}

// compare asserts that the two engines are indistinguishable; the finding key
// names the program shape and both outcome classes.
func compare(shape string, iv, cv outcome) {
	ci, cc := class(iv), class(cv)
	if ci != cc {
		zzverif.Fail(shape + " interp:" + ci + " vm:" + cc)
		return
	}
	if iv.isErr {
		return
	}
	zzverif.Assert(iv.status == cv.status, shape+" status-differs")
	zzverif.Assert(sameValue(iv.val, cv.val), shape+" "+ci+"-value-differs")
}

func ret(e ast.Expr) ast.Statement { return ast.ReturnStatement{Value: e} }

// twoOperands returns two operands. When both are ints they are either the
// very same symbolic value (alias) or assumed different: the compiler's
// constant pool de-duplicates equal constants, and proving x*y == x*x under
// x == y is beyond the solver's reach, so the equal case is represented by
// aliasing instead of by an equality in the path condition.
func twoOperands(ntags int) (l, r ast.Expr, lt, rt string) {
	l, lt = anyOperand("l", ntags)
	r, rt = anyOperand("r", ntags)
	if lt == "int" && rt == "int" {
		if zzverif.Choice("alias", 2) == 1 {
			r = l
		} else {
			lv := l.(ast.LiteralExpr).Value.(ast.IntLiteral).Value
			rv := r.(ast.LiteralExpr).Value.(ast.IntLiteral).Value
			zzverif.Assume(lv != rv)
		}
	}
	return
}

// O1a: `> L op R` for every operator and operand kind.
func binopHarness(ntags int) {
	op := ast.BinOp(zzverif.Choice("op", 13))
	l, r, lt, rt := twoOperands(ntags)
	route := routeOf(ret(ast.BinaryOpExpr{Op: op, Left: l, Right: r}))
	iv := runInterpreted(route)
	cv, ok := runCompiled(route, compiler.OptBasic)
	if ok {
		compare("binop "+op.String()+" "+lt+" "+rt, iv, cv)
	}
	zzverif.Reach("binop")
}

func VerifC02_BinOpScalars() { binopHarness(5) }
func VerifC02_BinOpAll()     { binopHarness(7) }

// O1b: unary operators.
func VerifC02_UnaryOp() {
	op := ast.UnOp(zzverif.Choice("op", 2))
	x, xt := anyOperand("x", 7)
	route := routeOf(ret(ast.UnaryOpExpr{Op: op, Right: x}))
	iv := runInterpreted(route)
	cv, ok := runCompiled(route, compiler.OptBasic)
	if ok {
		compare("unop "+op.String()+" "+xt, iv, cv)
	}
	zzverif.Reach("unop")
}

// O1c: operands that come from variables (no literal folding possible).
func VerifC02_BinOpVars() {
	op := ast.BinOp(zzverif.Choice("op", 13))
	l, r, lt, rt := twoOperands(5)
	route := routeOf(
		ast.AssignStatement{Target: "a", Value: l},
		ast.AssignStatement{Target: "b", Value: r},
		ret(ast.BinaryOpExpr{Op: op, Left: ast.VariableExpr{Name: "a"}, Right: ast.VariableExpr{Name: "b"}}),
	)
	iv := runInterpreted(route)
	cv, ok := runCompiled(route, compiler.OptBasic)
	if ok {
		compare("varbinop "+op.String()+" "+lt+" "+rt, iv, cv)
	}
	zzverif.Reach("varbinop")
}

// O1d: short-circuit: the right operand of && / || is an expression that fails.
func VerifC02_ShortCircuit() {
	op := []ast.BinOp{ast.And, ast.Or}[zzverif.Choice("op", 2)]
	l := ast.LiteralExpr{Value: ast.BoolLiteral{Value: zzverif.Bool("l")}}
	failing := ast.BinaryOpExpr{Op: ast.Eq,
		Left:  ast.BinaryOpExpr{Op: ast.Div, Left: ast.LiteralExpr{Value: ast.IntLiteral{Value: 1}}, Right: ast.LiteralExpr{Value: ast.IntLiteral{Value: zzverif.Int64("divisor")}}},
		Right: ast.LiteralExpr{Value: ast.IntLiteral{Value: 1}}}
	route := routeOf(ret(ast.BinaryOpExpr{Op: op, Left: l, Right: failing}))
	iv := runInterpreted(route)
	cv, ok := runCompiled(route, compiler.OptBasic)
	if ok {
		compare("shortcircuit "+op.String(), iv, cv)
	}
	zzverif.Reach("shortcircuit")
}

// O1e: field and index access on every kind.
func VerifC02_Access() {
	x, xt := anyOperand("x", 7)
	var e ast.Expr
	shape := ""
	switch zzverif.Choice("form", 3) {
	case 0:
		e, shape = ast.FieldAccessExpr{Object: ast.VariableExpr{Name: "v"}, Field: "k"}, "field-present-name"
	case 1:
		e, shape = ast.FieldAccessExpr{Object: ast.VariableExpr{Name: "v"}, Field: "missing"}, "field-missing-name"
	default:
		e, shape = ast.ArrayIndexExpr{Array: ast.VariableExpr{Name: "v"}, Index: ast.LiteralExpr{Value: ast.IntLiteral{Value: zzverif.Int64("index")}}}, "index"
	}
	route := routeOf(ast.AssignStatement{Target: "v", Value: x}, ret(e))
	iv := runInterpreted(route)
	cv, ok := runCompiled(route, compiler.OptBasic)
	if ok {
		compare("access "+shape+" "+xt, iv, cv)
	}
	zzverif.Reach("access")
}

// Twin: the two engines must be distinguishable from a third, wrong oracle.
func VerifC02_Twin() {
	l := ast.LiteralExpr{Value: ast.IntLiteral{Value: zzverif.Int64("l")}}
	r := ast.LiteralExpr{Value: ast.IntLiteral{Value: zzverif.Int64("r")}}
	route := routeOf(ret(ast.BinaryOpExpr{Op: ast.Add, Left: l, Right: r}))
	cv, ok := runCompiled(route, compiler.OptBasic)
	zzverif.Assume(ok)
	zzverif.Assert(!cv.isErr && sameValue(cv.val, int64(7)), "twin-must-fail")
	zzverif.Reach("twin")
}
