package zzc02

// C07 — declared data contracts are enforced at the boundary (interpreter path).

import (
	"math"

	"github.com/glyphlang/glyph/internal/zzverif"
	"github.com/glyphlang/glyph/pkg/ast"
	"github.com/glyphlang/glyph/pkg/interpreter"
)

// --- the contract, written from the property statement and spec section 2 ----

// conformsType: does JSON-decoded value v satisfy type t? (null handled by caller)
func conformsType(v interface{}, t ast.Type) bool {
	switch tt := t.(type) {
	case ast.IntType:
		f, ok := v.(float64) // JSON numbers decode to float64
		if ok {
			return f == math.Trunc(f) && !math.IsInf(f, 0)
		}
		_, isInt := v.(int64)
		return isInt
	case ast.FloatType:
		switch v.(type) {
		case float64, int64:
			return true
		}
		return false
	case ast.StringType:
		_, ok := v.(string)
		return ok
	case ast.BoolType:
		_, ok := v.(bool)
		return ok
	case ast.ArrayType:
		arr, ok := v.([]interface{})
		if !ok {
			return false
		}
		for _, e := range arr {
			if e != nil && tt.ElementType != nil && !conformsType(e, tt.ElementType) {
				return false
			}
		}
		return true
	case ast.NamedType:
		// the harness' nested type: Item {k: int!}
		obj, ok := v.(map[string]interface{})
		if !ok {
			return false
		}
		k, present := obj["k"]
		return present && k != nil && conformsType(k, ast.IntType{})
	case ast.OptionalType:
		return v == nil || conformsType(v, tt.InnerType)
	case ast.UnionType:
		for _, m := range tt.Types {
			if conformsType(v, m) {
				return true
			}
		}
		return false
	}
	return true
}

// conformsBody: the whole request body against a one-field type definition.
// specified=false: the property does not say (a non-object body for a type
// without required fields).
func conformsBody(body interface{}, f ast.Field) (ok bool, specified bool) {
	ok, specified = conformsBody1(body, f), true
	if _, isObj := body.(map[string]interface{}); !isObj && !(f.Required && f.Default == nil) {
		specified = false
	}
	return
}

func conformsBody1(body interface{}, f ast.Field) bool {
	required := f.Required && f.Default == nil
	obj, isObj := body.(map[string]interface{})
	if !isObj {
		// absent or not a JSON object: not acceptable when something is required
		return !required
	}
	v, present := obj[f.Name]
	if !present || v == nil {
		if _, opt := f.TypeAnnotation.(ast.OptionalType); opt && present {
			return true
		}
		return !required
	}
	return conformsType(v, f.TypeAnnotation)
}

var fieldTypes = []struct {
	name string
	t    ast.Type
	dflt ast.Expr
}{
	{"int", ast.IntType{}, ast.LiteralExpr{Value: ast.IntLiteral{Value: 7}}},
	{"str", ast.StringType{}, ast.LiteralExpr{Value: ast.StringLiteral{Value: "d"}}},
	{"bool", ast.BoolType{}, ast.LiteralExpr{Value: ast.BoolLiteral{Value: true}}},
	{"float", ast.FloatType{}, ast.LiteralExpr{Value: ast.FloatLiteral{Value: 1.5}}},
	{"[int]", ast.ArrayType{ElementType: ast.IntType{}}, nil},
	{"int?", ast.OptionalType{InnerType: ast.IntType{}}, nil},
	{"int|str", ast.UnionType{Types: []ast.Type{ast.IntType{}, ast.StringType{}}}, nil},
	{"Item", ast.NamedType{Name: "Item"}, nil},
	{"[Item]", ast.ArrayType{ElementType: ast.NamedType{Name: "Item"}}, nil},
}

// anyJSON returns a JSON-decoded-shaped value with symbolic payload and its kind.
func anyJSON(name string) (interface{}, string) {
	switch zzverif.Choice(name+".kind", 10) {
	case 7:
		return []interface{}{map[string]interface{}{"k": 1.0}}, "array-of-object"
	case 8:
		return []interface{}{map[string]interface{}{"k": 1.0}, 5.0}, "array-object-then-number"
	case 9:
		return map[string]interface{}{"k": "s"}, "object-bad-field"
	case 0:
		return nil, "null"
	case 1:
		return zzverif.Float64(name + ".num"), "number"
	case 2:
		return zzverif.StringFrom(name+".str", 1, "a1 "), "string"
	case 3:
		return zzverif.Bool(name + ".bool"), "bool"
	case 4:
		return []interface{}{zzverif.Float64(name + ".elem")}, "array-of-number"
	case 5:
		return []interface{}{"x"}, "array-of-string"
	default:
		return map[string]interface{}{"k": 1.0}, "object"
	}
}

func VerifC07_InputContract() {
	ft := fieldTypes[zzverif.Choice("fieldType", len(fieldTypes))]
	field := ast.Field{Name: "f", TypeAnnotation: ft.t, Required: zzverif.Choice("required", 2) == 1}
	dfl := "nodefault"
	if ft.dflt != nil && zzverif.Choice("hasDefault", 2) == 1 {
		field.Default = ft.dflt
		dfl = "default"
	}
	req := "optional"
	if field.Required {
		req = "required"
	}
	td := &ast.TypeDef{Name: "U", Fields: []ast.Field{field}}
	item := &ast.TypeDef{Name: "Item", Fields: []ast.Field{{Name: "k", TypeAnnotation: ast.IntType{}, Required: true}}}
	route := &ast.Route{Path: "/t", Method: ast.Post, InputType: ast.NamedType{Name: "U"},
		Body: []ast.Statement{ast.ReturnStatement{Value: ast.VariableExpr{Name: "input"}}}}

	var body interface{}
	shape := ""
	switch zzverif.Choice("body", 5) {
	case 0:
		body, shape = nil, "absent"
	case 1:
		body, shape = []interface{}{1.0}, "array"
	case 2:
		body, shape = "s", "string"
	case 3:
		body, shape = map[string]interface{}{}, "object-field-missing"
	default:
		v, k := anyJSON("f")
		body, shape = map[string]interface{}{"f": v, "extra": 1.0}, "object-field-"+k
	}

	in := interpreter.NewInterpreter()
	if err := in.LoadModule(ast.Module{Items: []ast.Item{item, td, route}}); err != nil {
		zzverif.Fail("module-rejected")
	}
	resp, err := in.ExecuteRoute(route, &interpreter.Request{Path: "/t", Method: "POST", Body: body})
	ran := err == nil && resp != nil && resp.StatusCode == 200
	ok, specified := conformsBody(body, field)
	if !specified {
		zzverif.Reach("input-contract")
		return
	}
	key := "field:" + ft.name + " " + req + " " + dfl + " body:" + shape
	if ran {
		zzverif.Assert(ok, "body-ran-on-nonconforming-input "+key)
		// defaults are applied exactly to absent fields
		if obj, isObj := body.(map[string]interface{}); isObj && ok {
			out, outIsObj := resp.Body.(map[string]interface{})
			zzverif.Assert(outIsObj, "input-not-an-object "+key)
			if outIsObj {
				_, present := obj["f"]
				got, gotPresent := out["f"]
				if present {
					zzverif.Assert(gotPresent && sameValue(got, obj["f"]), "present-field-overwritten "+key)
				} else if field.Default != nil {
					zzverif.Assert(gotPresent && got != nil, "default-not-applied-to-absent-field "+key)
				} else {
					zzverif.Assert(!gotPresent, "absent-field-invented "+key)
				}
			}
		}
	} else {
		zzverif.Assert(!ok, "conforming-input-rejected "+key)
		zzverif.Assert(resp != nil && resp.StatusCode >= 400 && resp.StatusCode < 500, "rejection-is-not-4xx "+key)
	}
	zzverif.Reach("input-contract")
}

// Typed query parameters: unparsable values are errors, parsable ones bind to
// the documented conversion.
func VerifC07_QueryParams() {
	kinds := []struct {
		name string
		t    ast.Type
	}{{"int", ast.IntType{}}, {"bool", ast.BoolType{}}, {"str", ast.StringType{}}}
	k := kinds[zzverif.Choice("type", len(kinds))]
	required := zzverif.Choice("required", 2) == 1
	decl := ast.QueryParamDecl{Name: "q", Type: k.t, Required: required}
	present := zzverif.Choice("present", 2) == 1
	raw := map[string][]string{}
	val := ""
	if present {
		val = zzverif.StringFrom("value", 2, "0129-+ tTyn")
		raw["q"] = []string{val}
	}
	res, err := interpreter.ProcessQueryParams(raw, []ast.QueryParamDecl{decl})
	key := k.name
	if !present {
		if required {
			zzverif.Assert(err != nil, "missing-required-query-param-accepted "+key)
		} else {
			zzverif.Assert(err == nil && res["q"] == nil, "missing-optional-query-param-not-null "+key)
		}
		zzverif.Reach("query")
		return
	}
	switch k.name {
	case "int":
		// documented conversion: optional sign followed by digits
		digits := true
		s := val
		if len(s) > 0 && (s[0] == '-' || s[0] == '+') {
			s = s[1:]
		}
		if len(s) == 0 {
			digits = false
		}
		for i := 0; i < len(s); i++ {
			if s[i] < '0' || s[i] > '9' {
				digits = false
			}
		}
		if digits {
			got, isInt := res["q"].(int64)
			zzverif.Assert(err == nil && isInt, "integer-query-param-rejected")
			if err == nil && isInt {
				var want int64
				for i := 0; i < len(s); i++ {
					want = want*10 + int64(s[i]-'0')
				}
				if val[0] == '-' {
					want = -want
				}
				zzverif.Assert(got == want, "integer-query-param-converted-wrongly")
			}
		} else {
			zzverif.Assert(err != nil, "unparsable-integer-query-param-accepted")
		}
	case "str":
		zzverif.Assert(err == nil && res["q"] == interface{}(val), "string-query-param-changed")
	case "bool":
		if err == nil {
			_, isBool := res["q"].(bool)
			zzverif.Assert(isBool, "bool-query-param-not-bool")
		}
	}
	zzverif.Reach("query")
}

// Integer query parameters, 3 bytes incl. the characters of float syntax: only
// an optional sign followed by digits is an integer; "2.7", "1e3", ".5" are not.
// Also through the array form (?q=1&q=x).
func VerifC07_QueryInt3() {
	val := zzverif.StringFrom("value", 3, "0129-+.e ")
	array := zzverif.Bool("array")
	decl := ast.QueryParamDecl{Name: "q", Type: ast.IntType{}}
	raw := map[string][]string{"q": {val}}
	if array {
		// the parser declares `? q: [int]` as an array type with IsArray set
		decl = ast.QueryParamDecl{Name: "q", Type: ast.ArrayType{ElementType: ast.IntType{}}, IsArray: true}
		raw["q"] = []string{"1", val}
	}
	res, err := interpreter.ProcessQueryParams(raw, []ast.QueryParamDecl{decl})
	s := val
	if s[0] == '-' || s[0] == '+' {
		s = s[1:]
	}
	digits := len(s) > 0
	for i := 0; i < len(s); i++ {
		if s[i] < '0' || s[i] > '9' {
			digits = false
		}
	}
	if !digits {
		zzverif.Assert(err != nil, "unparsable-integer-query-param-accepted")
		zzverif.Reach("queryint")
		return
	}
	var want int64
	for i := 0; i < len(s); i++ {
		want = want*10 + int64(s[i]-'0')
	}
	if val[0] == '-' {
		want = -want
	}
	if array {
		arr, ok := res["q"].([]interface{})
		zzverif.Assert(err == nil && ok && len(arr) == 2 && arr[0] == interface{}(int64(1)) && arr[1] == interface{}(want), "integer-array-query-param-converted-wrongly")
	} else {
		zzverif.Assert(err == nil && res["q"] == interface{}(want), "integer-query-param-converted-wrongly")
	}
	zzverif.Reach("queryint")
}

// Declared return type: a violating result is a 5xx, never sent.
func VerifC07_ReturnType() {
	rt := fieldTypes[zzverif.Choice("returnType", 4)] // int, str, bool, float
	e, et := anyOperand("result", 5)
	route := &ast.Route{Path: "/t", Method: ast.Get, ReturnType: rt.t, Body: []ast.Statement{ast.ReturnStatement{Value: e}}}
	in := interpreter.NewInterpreter()
	resp, err := in.ExecuteRoute(route, &interpreter.Request{Path: "/t", Method: "GET"})
	okType := et == rt.name || et == "null" || (rt.name == "float" && et == "int")
	if et == "float" && rt.name == "int" {
		f := e.(ast.LiteralExpr).Value.(ast.FloatLiteral).Value
		okType = f == math.Trunc(f) && !math.IsInf(f, 0) // documented leniency for JSON numbers
	}
	key := "declared:" + rt.name + " result:" + et
	if err == nil && resp != nil && resp.StatusCode == 200 {
		zzverif.Assert(okType, "result-violating-return-type-sent "+key)
	} else {
		zzverif.Assert(!okType, "conforming-result-rejected "+key)
		zzverif.Assert(resp != nil && resp.StatusCode >= 500, "bad-return-value-is-not-5xx "+key)
	}
	zzverif.Reach("return-type")
}

func VerifC07_Twin() {
	td := &ast.TypeDef{Name: "U", Fields: []ast.Field{{Name: "f", TypeAnnotation: ast.IntType{}, Required: true}}}
	route := &ast.Route{Path: "/t", Method: ast.Post, InputType: ast.NamedType{Name: "U"},
		Body: []ast.Statement{ast.ReturnStatement{Value: ast.VariableExpr{Name: "input"}}}}
	in := interpreter.NewInterpreter()
	in.LoadModule(ast.Module{Items: []ast.Item{td, route}})
	resp, err := in.ExecuteRoute(route, &interpreter.Request{Path: "/t", Method: "POST", Body: map[string]interface{}{"f": zzverif.Float64("f")}})
	zzverif.Assert(err != nil || resp.StatusCode != 200, "twin-must-fail")
	zzverif.Reach("twin")
}
