package main

// Symbolic counterparts of the concrete operators.

import (
	"fmt"
	"go/token"
	"strings"
	"go/types"
	"math"
)

func isSym(v value) bool {
	_, ok := v.(*sym)
	return ok
}

func isSymStrLike(v value) bool {
	switch v.(type) {
	case symstr, *opaqueStr:
		return true
	}
	return false
}

// termOf converts a concrete or symbolic scalar to a term.
func (i *interpreter) termOf(v value) *Term {
	ts := i.ts
	switch v := v.(type) {
	case *sym:
		return v.t
	case bool:
		return ts.Bool(v)
	case int:
		return ts.BV(uint64(v), 64)
	case int8:
		return ts.BV(uint64(v), 8)
	case int16:
		return ts.BV(uint64(v), 16)
	case int32:
		return ts.BV(uint64(v), 32)
	case int64:
		return ts.BV(uint64(v), 64)
	case uint:
		return ts.BV(uint64(v), 64)
	case uint8:
		return ts.BV(uint64(v), 8)
	case uint16:
		return ts.BV(uint64(v), 16)
	case uint32:
		return ts.BV(uint64(v), 32)
	case uint64:
		return ts.BV(v, 64)
	case uintptr:
		return ts.BV(uint64(v), 64)
	case float64:
		return ts.FP64(v)
	case float32:
		return ts.FP32(v)
	}
	panic(engineErr{fmt.Sprintf("termOf: unsupported %T", v)})
}

// valueOfBits builds a concrete Go scalar of basic kind k from bits.
func valueOfBits(k types.BasicKind, bits uint64) value {
	switch k {
	case types.Bool, types.UntypedBool:
		return bits != 0
	case types.Int, types.UntypedInt:
		return int(bits)
	case types.Int8:
		return int8(bits)
	case types.Int16:
		return int16(bits)
	case types.Int32, types.UntypedRune:
		return int32(bits)
	case types.Int64:
		return int64(bits)
	case types.Uint:
		return uint(bits)
	case types.Uint8:
		return uint8(bits)
	case types.Uint16:
		return uint16(bits)
	case types.Uint32:
		return uint32(bits)
	case types.Uint64:
		return bits
	case types.Uintptr:
		return uintptr(bits)
	case types.Float64, types.UntypedFloat:
		return math.Float64frombits(bits)
	case types.Float32:
		return math.Float32frombits(uint32(bits))
	}
	panic(engineErr{fmt.Sprintf("valueOfBits: kind %v", k)})
}

func basicOf(t types.Type) *types.Basic {
	if t == nil {
		return nil
	}
	b, _ := t.Underlying().(*types.Basic)
	return b
}

func isSigned(t types.Type) bool {
	b := basicOf(t)
	return b != nil && b.Info()&types.IsInteger != 0 && b.Info()&types.IsUnsigned == 0
}

func kindWidth(k types.BasicKind) int {
	switch k {
	case types.Int8, types.Uint8:
		return 8
	case types.Int16, types.Uint16:
		return 16
	case types.Int32, types.Uint32, types.UntypedRune:
		return 32
	}
	return 64
}

// mkSym wraps a term; constants are turned back into concrete Go values of kind k.
func mkSym(t *Term, k types.BasicKind) value {
	if t.isC {
		if t.sort.k == sFP64 || t.sort.k == sFP32 {
			if t.sort.k == sFP64 {
				return math.Float64frombits(t.cu)
			}
			return math.Float32frombits(uint32(t.cu))
		}
		return valueOfBits(k, uint64(signOrZero(t, k)))
	}
	return &sym{t}
}

func signOrZero(t *Term, k types.BasicKind) uint64 {
	switch k {
	case types.Int, types.Int8, types.Int16, types.Int32, types.Int64, types.UntypedInt, types.UntypedRune:
		return uint64(signExt(t.cu, t.sort.w))
	}
	return t.cu
}

func boolVal(t *Term) value {
	if t.isC {
		return t.cu != 0
	}
	return &sym{t}
}

// cond decides a branch condition (forking when symbolic).
func (fr *frame) cond(v value) bool {
	switch v := v.(type) {
	case bool:
		return v
	case *sym:
		return fr.i.branch(v.t, fr)
	}
	panic(engineErr{fmt.Sprintf("cond: %T", v)})
}

func symBinop(fr *frame, op token.Token, t types.Type, x, y value) value {
	i := fr.i
	ts := i.ts
	b := basicOf(t)
	if b == nil {
		panic(engineErr{fmt.Sprintf("symbolic binop on non-basic type %s", t)})
	}
	k := b.Kind()
	info := b.Info()
	switch {
	case info&types.IsBoolean != 0:
		a, c := i.termOf(x), i.termOf(y)
		switch op {
		case token.EQL:
			return boolVal(ts.Eq(a, c))
		case token.NEQ:
			return boolVal(ts.Not(ts.Eq(a, c)))
		case token.AND, token.LAND:
			return boolVal(ts.And(a, c))
		case token.OR, token.LOR:
			return boolVal(ts.Or(a, c))
		}
	case info&types.IsInteger != 0:
		signed := info&types.IsUnsigned == 0
		if op == token.SHL || op == token.SHR {
			return symShift(fr, op, k, signed, x, y)
		}
		a, c := i.termOf(x), i.termOf(y)
		switch op {
		case token.ADD:
			return mkSym(ts.bvBin("bvadd", a, c), k)
		case token.SUB:
			return mkSym(ts.bvBin("bvsub", a, c), k)
		case token.MUL:
			return mkSym(ts.bvBin("bvmul", a, c), k)
		case token.QUO, token.REM:
			zero := ts.BV(0, c.sort.w)
			if fr.cond(boolVal(ts.Eq(c, zero))) {
				panic(runtimeErr{"integer divide by zero"})
			}
			var o string
			switch {
			case op == token.QUO && signed:
				o = "bvsdiv"
			case op == token.QUO:
				o = "bvudiv"
			case signed:
				o = "bvsrem"
			default:
				o = "bvurem"
			}
			return mkSym(ts.bvBin(o, a, c), k)
		case token.AND:
			return mkSym(ts.bvBin("bvand", a, c), k)
		case token.OR:
			return mkSym(ts.bvBin("bvor", a, c), k)
		case token.XOR:
			return mkSym(ts.bvBin("bvxor", a, c), k)
		case token.AND_NOT:
			return mkSym(ts.bvBin("bvand", a, ts.bvNot(c)), k)
		case token.EQL:
			return boolVal(ts.Eq(a, c))
		case token.NEQ:
			return boolVal(ts.Not(ts.Eq(a, c)))
		case token.LSS:
			return boolVal(ts.bvCmp(pick(signed, "bvslt", "bvult"), a, c))
		case token.LEQ:
			return boolVal(ts.bvCmp(pick(signed, "bvsle", "bvule"), a, c))
		case token.GTR:
			return boolVal(ts.bvCmp(pick(signed, "bvslt", "bvult"), c, a))
		case token.GEQ:
			return boolVal(ts.bvCmp(pick(signed, "bvsle", "bvule"), c, a))
		}
	case info&types.IsFloat != 0:
		a, c := i.termOf(x), i.termOf(y)
		switch op {
		case token.ADD:
			return mkSym(ts.fpBin("fp.add", a, c), k)
		case token.SUB:
			return mkSym(ts.fpBin("fp.sub", a, c), k)
		case token.MUL:
			return mkSym(ts.fpBin("fp.mul", a, c), k)
		case token.QUO:
			return mkSym(ts.fpBin("fp.div", a, c), k)
		case token.EQL:
			return boolVal(ts.Eq(a, c))
		case token.NEQ:
			return boolVal(ts.Not(ts.Eq(a, c)))
		case token.LSS:
			return boolVal(ts.fpCmp("fp.lt", a, c))
		case token.LEQ:
			return boolVal(ts.fpCmp("fp.leq", a, c))
		case token.GTR:
			return boolVal(ts.fpCmp("fp.gt", a, c))
		case token.GEQ:
			return boolVal(ts.fpCmp("fp.geq", a, c))
		}
	case info&types.IsString != 0:
		return symStrBinop(fr, op, x, y)
	}
	panic(engineErr{fmt.Sprintf("UNSUPPORTED symbolic binop %s on %s (%T,%T)", op, t, x, y)})
}

func pick(c bool, a, b string) string {
	if c {
		return a
	}
	return b
}

func symShift(fr *frame, op token.Token, k types.BasicKind, signed bool, x, y value) value {
	i := fr.i
	ts := i.ts
	a := i.termOf(x)
	w := a.sort.w
	// shift count: must be non-negative
	var c *Term
	switch yv := y.(type) {
	case *sym:
		c = yv.t
		// is y's static type signed? we cannot tell from the term: the
		// caller passes y's dynamic Go type only for concrete values.
		// ssa guarantees shift counts are unsigned or checked; treat as unsigned.
	default:
		u, ok := asUnsigned(y)
		if !ok {
			panic(runtimeErr{"negative shift amount"})
		}
		c = ts.BV(asUint64(u), 64)
	}
	// bring count to width w, saturating
	if c.sort.w > w {
		big := ts.bvCmp("bvule", ts.BV(uint64(w), c.sort.w), c)
		c = ts.Ite(big, ts.BV(uint64(w), w), ts.Resize(c, w, false))
	} else if c.sort.w < w {
		c = ts.Resize(c, w, false)
	}
	switch {
	case op == token.SHL:
		return mkSym(ts.bvBin("bvshl", a, c), k)
	case signed:
		return mkSym(ts.bvBin("bvashr", a, c), k)
	default:
		return mkSym(ts.bvBin("bvlshr", a, c), k)
	}
}

func byteTerm(i *interpreter, b value) *Term {
	switch b := b.(type) {
	case uint8:
		return i.ts.BV(uint64(b), 8)
	case *sym:
		return b.t
	}
	panic(engineErr{fmt.Sprintf("byteTerm %T", b)})
}

func symStrBinop(fr *frame, op token.Token, x, y value) value {
	i := fr.i
	ts := i.ts
	if ox, ok := x.(*opaqueStr); ok {
		return opaqueStrBinop(fr, op, ox, y)
	}
	if oy, ok := y.(*opaqueStr); ok {
		return opaqueStrBinop(fr, op, oy, x)
	}
	xb, yb := bytesOfStr(x), bytesOfStr(y)
	switch op {
	case token.ADD:
		r := make([]value, 0, len(xb)+len(yb))
		r = append(r, xb...)
		r = append(r, yb...)
		return mkstr(r)
	case token.EQL, token.NEQ:
		var c *Term
		if len(xb) != len(yb) {
			c = ts.tFalse
		} else {
			c = ts.tTrue
			for k := range xb {
				c = ts.And(c, ts.Eq(byteTerm(i, xb[k]), byteTerm(i, yb[k])))
			}
		}
		if op == token.NEQ {
			c = ts.Not(c)
		}
		return boolVal(c)
	case token.LSS, token.LEQ, token.GTR, token.GEQ:
		if op == token.GTR || op == token.GEQ {
			xb, yb = yb, xb
		}
		// x < y (or <=) lexicographic
		n := len(xb)
		if len(yb) < n {
			n = len(yb)
		}
		var tail *Term
		if op == token.LSS || op == token.GTR {
			tail = ts.Bool(len(xb) < len(yb))
		} else {
			tail = ts.Bool(len(xb) <= len(yb))
		}
		r := tail
		for k := n - 1; k >= 0; k-- {
			a, b := byteTerm(i, xb[k]), byteTerm(i, yb[k])
			r = ts.Ite(ts.bvCmp("bvult", a, b), ts.tTrue, ts.Ite(ts.bvCmp("bvult", b, a), ts.tFalse, r))
		}
		return boolVal(r)
	}
	panic(engineErr{fmt.Sprintf("UNSUPPORTED string op %s", op)})
}

func opaqueStrBinop(fr *frame, op token.Token, o *opaqueStr, other value) value {
	switch op {
	case token.ADD:
		return fr.i.newOpaque("concat")
	case token.EQL, token.NEQ:
		if oo, ok := other.(*opaqueStr); ok && oo == o {
			return op == token.EQL
		}
		if o.uni {
			i := fr.i
			var c *Term
			switch ot := other.(type) {
			case *opaqueStr:
				if ot.uni {
					if ot.c == o.c {
						c = i.ts.Eq(i.termOf(o.n), i.termOf(ot.n))
					} else {
						z := i.ts.BV(0, 64)
						c = i.ts.And(i.ts.Eq(i.termOf(o.n), z), i.ts.Eq(i.termOf(ot.n), z))
					}
				}
			case string:
				all := true
				for k := 0; k < len(ot); k++ {
					if ot[k] != o.c {
						all = false
					}
				}
				if all {
					c = i.ts.Eq(i.termOf(o.n), i.ts.BV(uint64(len(ot)), 64))
				} else {
					c = i.ts.tFalse
				}
			}
			if c != nil {
				if op == token.NEQ {
					c = i.ts.Not(c)
				}
				return boolVal(c)
			}
		}
		if s, ok := other.(string); ok && s == "" {
			// an opaque (formatted) string is treated as non-empty
			return op == token.NEQ
		}
		// Sprintf with a literal format: the result starts with the format's
		// text up to the first verb, so it cannot equal a string that does not
		if s, ok := other.(string); ok && strings.HasPrefix(o.src, "Sprintf(") && strings.HasSuffix(o.src, ")") {
			f := o.src[len("Sprintf(") : len(o.src)-1]
			if k := strings.IndexByte(f, '%'); k > 0 && !strings.HasPrefix(s, f[:k]) {
				return op == token.NEQ
			}
		}
	}
	panic(engineErr{"UNSUPPORTED inspection of opaque string (" + o.src + ") op " + op.String()})
}

var opaqueCounter int

func (i *interpreter) newOpaque(src string) *opaqueStr {
	opaqueCounter++
	return &opaqueStr{id: opaqueCounter, n: 1, src: src}
}

func symUnop(fr *frame, op token.Token, t types.Type, x *sym) value {
	ts := fr.i.ts
	b := basicOf(t)
	k := b.Kind()
	switch op {
	case token.NOT:
		return boolVal(ts.Not(x.t))
	case token.SUB:
		if x.t.sort.k == sBV {
			return mkSym(ts.bvNeg(x.t), k)
		}
		return mkSym(ts.mk("fp.neg", x.t.sort, x.t), k)
	case token.XOR:
		return mkSym(ts.bvNot(x.t), k)
	}
	panic(engineErr{"UNSUPPORTED symbolic unop " + op.String()})
}

// symConv converts symbolic scalar x of type src to type dst.
func symConv(fr *frame, dst, src types.Type, x *sym) value {
	ts := fr.i.ts
	bs, bd := basicOf(src), basicOf(dst)
	if bs == nil || bd == nil {
		panic(engineErr{fmt.Sprintf("UNSUPPORTED symbolic conversion %s -> %s", src, dst)})
	}
	dk := bd.Kind()
	switch {
	case bs.Info()&types.IsInteger != 0 && bd.Info()&types.IsInteger != 0:
		return mkSym(ts.Resize(x.t, kindWidth(dk), isSigned(src)), dk)
	case bs.Info()&types.IsInteger != 0 && bd.Info()&types.IsFloat != 0:
		so := fp64Sort
		pre := "(_ to_fp 11 53)"
		if dk == types.Float32 {
			so = fp32Sort
			pre = "(_ to_fp 8 24)"
		}
		if !isSigned(src) {
			pre = "(_ to_fp_unsigned" + pre[8:]
		}
		return &sym{ts.mk(pre+" RNE", so, x.t)}
	case bs.Info()&types.IsFloat != 0 && bd.Info()&types.IsInteger != 0:
		w := kindWidth(dk)
		opn := fmt.Sprintf("(_ fp.to_sbv %d) RTZ", w)
		if !isSigned(dst) {
			opn = fmt.Sprintf("(_ fp.to_ubv %d) RTZ", w)
		}
		fr.i.note("float->int conversion of a symbolic value: out-of-range results are implementation-specific in Go and unspecified in SMT-LIB")
		return &sym{ts.mk(opn, bvSort(w), x.t)}
	case bs.Info()&types.IsFloat != 0 && bd.Info()&types.IsFloat != 0:
		if bs.Kind() == dk || (bs.Kind() == types.UntypedFloat && dk == types.Float64) {
			return x
		}
		if dk == types.Float32 {
			return &sym{ts.mk("(_ to_fp 8 24) RNE", fp32Sort, x.t)}
		}
		return &sym{ts.mk("(_ to_fp 11 53) RNE", fp64Sort, x.t)}
	case bs.Info()&types.IsInteger != 0 && bd.Info()&types.IsString != 0:
		// string(rune): an ASCII rune is the one-byte string holding it (kept
		// symbolic); anything else is concretised
		if fr.i.branch(ts.bvCmp("bvult", x.t, ts.BV(0x80, x.t.sort.w)), fr) {
			return symstr{&sym{ts.Resize(x.t, 8, false)}}
		}
		v := fr.concretize(x, "string(rune)")
		return string(rune(signExt(v, x.t.sort.w)))
	case bs.Info()&types.IsBoolean != 0 && bd.Info()&types.IsBoolean != 0:
		return x
	}
	panic(engineErr{fmt.Sprintf("UNSUPPORTED symbolic conversion %s -> %s", src, dst)})
}

// eqValue computes x == y for type t; the result is bool or *sym.
func eqValue(fr *frame, t types.Type, x, y value) value {
	i := fr.i
	ts := i.ts
	switch xv := x.(type) {
	case *sym:
		return eqScalar(fr, t, x, y)
	case symstr, *opaqueStr:
		return symStrBinop(fr, token.EQL, x, y)
	case string:
		if isSymStrLike(y) {
			return symStrBinop(fr, token.EQL, x, y)
		}
		return xv == y.(string)
	case structure:
		yv := y.(structure)
		st, ok := t.Underlying().(*types.Struct)
		if !ok {
			panic(engineErr{fmt.Sprintf("eqValue: structure with type %s", t)})
		}
		var acc *Term = ts.tTrue
		for k := 0; k < st.NumFields(); k++ {
			f := st.Field(k)
			if f.Name() == "_" {
				continue
			}
			c := eqValue(fr, f.Type(), xv[k], yv[k])
			if cb, ok := c.(bool); ok {
				if !cb {
					return false
				}
				continue
			}
			acc = ts.And(acc, c.(*sym).t)
		}
		return boolVal(acc)
	case array:
		yv := y.(array)
		et := t.Underlying().(*types.Array).Elem()
		var acc *Term = ts.tTrue
		for k := range xv {
			c := eqValue(fr, et, xv[k], yv[k])
			if cb, ok := c.(bool); ok {
				if !cb {
					return false
				}
				continue
			}
			acc = ts.And(acc, c.(*sym).t)
		}
		return boolVal(acc)
	case iface:
		yv := y.(iface)
		if !sameType(xv.t, yv.t) {
			return false
		}
		if xv.t == nil {
			return true
		}
		if xv.t == rtypeType {
			return types.Identical(xv.v.(rtype).t, yv.v.(rtype).t)
		}
		if !types.Comparable(xv.t) {
			panic(runtimeErr{"comparing uncomparable type " + xv.t.String()})
		}
		return eqValue(fr, xv.t, xv.v, yv.v)
	case rtype:
		return types.Identical(xv.t, y.(rtype).t)
	}
	if isSym(y) {
		return eqScalar(fr, t, x, y)
	}
	// reference kinds compared against nil etc.
	switch t.Underlying().(type) {
	case *types.Map, *types.Signature, *types.Slice:
		return eqnil(t, x, y)
	}
	return equals(t, x, y)
}

func eqScalar(fr *frame, t types.Type, x, y value) value {
	i := fr.i
	return boolVal(i.ts.Eq(i.termOf(x), i.termOf(y)))
}

// ----------------------------------------------------------------------
// concretisation

// concretize enumerates the feasible values of s (forking).
func (fr *frame) concretize(s *sym, what string) uint64 {
	return fr.i.concretizeTerm(s.t, what, fr)
}

// concInt returns a concrete int64 for an integer value that must lie in
// [lo,hi]; below lo is a Go run-time panic, above hi an allocation-bound
// violation (implicit assertion).
func (fr *frame) concInt(v value, lo, hi int64, what string) int64 {
	if s, ok := v.(*sym); ok {
		ts := fr.i.ts
		w := s.t.sort.w
		t64 := ts.Resize(s.t, 64, true) // sizes are signed ints in Go
		_ = w
		if fr.cond(boolVal(ts.bvCmp("bvslt", t64, ts.BV(uint64(lo), 64)))) {
			panic(runtimeErr{what + " out of range"})
		}
		if fr.cond(boolVal(ts.bvCmp("bvslt", ts.BV(uint64(hi), 64), t64))) {
			fr.i.violationHere(fr, "alloc", fmt.Sprintf("%s exceeds the allocation bound (%d elements)", what, hi))
			panic(pathAbort{"violation", "oversized allocation"})
		}
		return signExt(fr.concretize(s, what), w)
	}
	k := asInt64(v)
	if k < lo {
		panic(runtimeErr{what + " out of range"})
	}
	if k > hi {
		fr.i.violationHere(fr, "alloc", fmt.Sprintf("%s = %d exceeds the allocation bound (%d elements)", what, k, hi))
		panic(pathAbort{"violation", "oversized allocation"})
	}
	return k
}

func (fr *frame) concIndex(idx value, n int, it types.Type) int {
	if s, ok := idx.(*sym); ok {
		ts := fr.i.ts
		t64 := ts.Resize(s.t, 64, isSigned(it))
		inb := ts.bvCmp("bvult", t64, ts.BV(uint64(n), 64))
		if !fr.cond(boolVal(inb)) {
			panic(runtimeErr{fmt.Sprintf("index out of range [symbolic] with length %d", n)})
		}
		v := fr.concretize(s, "index")
		if isSigned(it) {
			return int(signExt(v, s.t.sort.w))
		}
		return int(v)
	}
	k := asInt64(idx)
	if k < 0 || k >= int64(n) {
		panic(runtimeErr{fmt.Sprintf("index out of range [%d] with length %d", k, n)})
	}
	return int(k)
}

// indexRead reads elems[idx]; for a symbolic index over scalar elements the
// result is an ite chain.
func (fr *frame) indexRead(elems []value, idx value, it types.Type, et types.Type) value {
	s, ok := idx.(*sym)
	if !ok {
		k := asInt64(idx)
		if k < 0 || k >= int64(len(elems)) {
			panic(runtimeErr{fmt.Sprintf("index out of range [%d] with length %d", k, len(elems))})
		}
		return elems[k]
	}
	n := len(elems)
	ts := fr.i.ts
	t64 := ts.Resize(s.t, 64, isSigned(it))
	inb := ts.bvCmp("bvult", t64, ts.BV(uint64(n), 64))
	if !fr.cond(boolVal(inb)) {
		panic(runtimeErr{fmt.Sprintf("index out of range [symbolic] with length %d", n)})
	}
	// scalar elements of a single kind?
	var kind types.BasicKind
	scalar := false
	if b := basicOf(et); b != nil && n > 0 && n <= 512 && b.Info()&(types.IsInteger|types.IsBoolean|types.IsFloat) != 0 {
		kind = b.Kind()
		scalar = true
	}
	if scalar && kind != types.Invalid {
		return mkSym(fr.i.iteChain(elems, t64), kind)
	}
	v := fr.concretize(s, "index")
	if isSigned(it) {
		return elems[int(signExt(v, s.t.sort.w))]
	}
	return elems[int(v)]
}

func scalarKind(v value) (types.BasicKind, bool) {
	switch v.(type) {
	case bool:
		return types.Bool, true
	case int:
		return types.Int, true
	case int8:
		return types.Int8, true
	case int16:
		return types.Int16, true
	case int32:
		return types.Int32, true
	case int64:
		return types.Int64, true
	case uint:
		return types.Uint, true
	case uint8:
		return types.Uint8, true
	case uint16:
		return types.Uint16, true
	case uint32:
		return types.Uint32, true
	case uint64:
		return types.Uint64, true
	case uintptr:
		return types.Uintptr, true
	case float64:
		return types.Float64, true
	case float32:
		return types.Float32, true
	}
	return types.Invalid, false
}
