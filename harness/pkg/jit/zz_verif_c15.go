package jit

// C15 — JIT tiering and caching are invisible: whatever the history, the
// bytecode handed out behaves like a fresh baseline compilation of the route's
// current definition; after an invalidation stale code is never served.

import (
	"time"

	"github.com/glyphlang/glyph/internal/zzverif"
	"github.com/glyphlang/glyph/pkg/ast"
	"github.com/glyphlang/glyph/pkg/vm"
)

// two definitions under the same route name: > input + 1  and  > input * 2 - x*0 ...
func zzDef(k int) *ast.Route {
	var e ast.Expr
	in := &ast.VariableExpr{Name: "input"}
	switch k {
	case 0:
		e = &ast.BinaryOpExpr{Op: ast.Add, Left: in, Right: &ast.LiteralExpr{Value: ast.IntLiteral{Value: 1}}}
	default:
		e = &ast.BinaryOpExpr{Op: ast.Sub, Left: in, Right: &ast.LiteralExpr{Value: ast.IntLiteral{Value: 7}}}
	}
	return &ast.Route{Path: "/r", Method: ast.Get, Body: []ast.Statement{&ast.ReturnStatement{Value: e}}}
}

func zzExpected(k int, in int64) int64 {
	if k == 0 {
		return in + 1
	}
	return in - 7
}

// zzCheckBytecode runs bc on a fresh VM with a symbolic input and compares it
// with what the current definition means.
func zzCheckBytecode(bc []byte, err error, current int, what string) {
	if err != nil {
		zzverif.Fail("jit-compile-error " + what)
		return
	}
	in := zzverif.Int64("input")
	m := vm.NewVM()
	m.SetLocal("input", vm.IntValue{Val: in})
	m.SetMaxSteps(1000)
	res, rerr := m.Execute(bc)
	iv, ok := res.(vm.IntValue)
	zzverif.Assert(rerr == nil && ok && iv.Val == zzExpected(current, in), "stale-or-wrong-code-served "+what)
}

func zzJITHistory(k int) {
	threshold := zzverif.IntRange("hotPathThreshold", 0, 4)
	window := time.Duration(zzverif.IntRange("recompileWindowNs", 0, 1000))
	j := NewJITCompilerWithConfig(threshold, window)
	current := 0
	types := map[string]string{"input": "int"}
	trace := ""
	for step := 0; step < k; step++ {
		switch zzverif.Choice("op", 8) {
		case 0:
			bc, err := j.CompileRoute("r", zzDef(current))
			zzCheckBytecode(bc, err, current, "CompileRoute after"+trace)
			trace += " compile"
		case 1:
			j.RecordExecution("r", time.Duration(zzverif.IntRange("execNs", 0, 100)))
			trace += " exec"
		case 2:
			bc, err := j.CompileRouteWithTypes("r", zzDef(current), types)
			zzCheckBytecode(bc, err, current, "CompileRouteWithTypes after"+trace)
			trace += " compileTyped"
		case 3:
			j.RecordDeoptimization("r", "type mismatch", map[string]string{"input": "string"})
			trace += " deopt"
		case 4:
			// the definition changes only together with an invalidation
			j.InvalidateCache("r")
			current = zzverif.Choice("newDefinition", 2)
			trace += " invalidate"
		case 5:
			j.ClearCache()
			current = zzverif.Choice("newDefinition", 2)
			trace += " clear"
		case 6:
			j.CheckAdaptiveRecompilation("r", zzDef(current))
			trace += " adaptive"
		default:
			for n := 0; n < 3; n++ {
				j.RecordExecution("r", 1)
			}
			trace += " exec3"
		}
	}
	bc, err := j.CompileRoute("r", zzDef(current))
	zzCheckBytecode(bc, err, current, "final CompileRoute after"+trace)
	bc, err = j.CompileRouteWithTypes("r", zzDef(current), types)
	zzCheckBytecode(bc, err, current, "final CompileRouteWithTypes after"+trace)
	zzverif.Reach("jit-history")
}

func VerifC15_History2() { zzJITHistory(2) }
func VerifC15_History3() { zzJITHistory(3) }
func VerifC15_History4() { zzJITHistory(4) }

// at most 5 specialisations per route and eviction never returns an invalid entry
func VerifC15_SpecialisationBound() {
	j := NewJITCompiler()
	n := 5 + zzverif.Choice("extra", 3)
	for k := 0; k < n; k++ {
		t := map[string]string{"input": []string{"int", "float", "string", "bool", "array", "object", "null", "any"}[k]}
		bc, err := j.CompileRouteWithTypes("r", zzDef(0), t)
		zzCheckBytecode(bc, err, 0, "specialisation")
	}
	st := j.GetSpecializationStats()["r"]
	zzverif.Assert(st.TotalSpecializations <= 5, "more-than-5-specialisations")
	zzverif.Reach("spec-bound")
}

// A route with more type signatures than the cache keeps (so some variants were
// evicted), then redefined together with an invalidation: whichever signature
// is asked for next - kept, evicted or new - gets code for the new definition.
func VerifC15_EvictedVariantAfterInvalidate() {
	j := NewJITCompiler()
	kinds := []string{"int", "float", "string", "bool", "array", "object", "null", "any"}
	n := 5 + zzverif.Choice("extra", 3)
	for k := 0; k < n; k++ {
		bc, err := j.CompileRouteWithTypes("r", zzDef(0), map[string]string{"input": kinds[k]})
		zzCheckBytecode(bc, err, 0, "specialisation")
	}
	how := "InvalidateCache"
	switch zzverif.Choice("invalidation", 3) {
	case 0:
		j.InvalidateCache("r")
	case 1:
		j.ClearCache()
		how = "ClearCache"
	default:
		j.RecordDeoptimization("r", "type mismatch", map[string]string{"input": "string"})
		j.InvalidateCache("r")
		how = "deopt+InvalidateCache"
	}
	ask := zzverif.Choice("signature asked for", 8)
	bc, err := j.CompileRouteWithTypes("r", zzDef(1), map[string]string{"input": kinds[ask]})
	zzCheckBytecode(bc, err, 1, "CompileRouteWithTypes("+kinds[ask]+") after "+how+" with evicted variants")
	bc, err = j.CompileRoute("r", zzDef(1))
	zzCheckBytecode(bc, err, 1, "CompileRoute after "+how+" with evicted variants")
	zzverif.Reach("evicted-variant")
}

func VerifC15_Twin() {
	j := NewJITCompiler()
	bc, err := j.CompileRoute("r", zzDef(0))
	zzCheckBytecode(bc, err, 1, "twin-must-fail")
	zzverif.Reach("twin")
}

// O3: a request served from the cache while another goroutine's executions
// push the route over the hot-path threshold and recompile it. On every
// explored schedule the code handed out must still mean the route, and the
// accesses to the shared compilation unit must be ordered.
func VerifC15_ConcurrentRecompile() {
	j := NewJITCompilerWithConfig(2, 0)
	bc0, err0 := j.CompileRoute("r", zzDef(0))
	zzCheckBytecode(bc0, err0, 0, "first CompileRoute")
	done := make(chan struct{}, 2)
	var bcA, bcB []byte
	var errA, errB error
	go func() {
		zzverif.Perturb()
		bcA, errA = j.CompileRoute("r", zzDef(0))
		// the request executes what it was handed while the other goroutine may be
		// promoting the route: the bytes it reads must not be written concurrently
		if errA == nil {
			m := vm.NewVM()
			m.SetLocal("input", vm.IntValue{Val: 1})
			m.SetMaxSteps(1000)
			zzverif.Perturb()
			m.Execute(bcA)
		}
		done <- struct{}{}
	}()
	go func() {
		zzverif.Perturb()
		for k := 0; k < 3; k++ {
			j.RecordExecution("r", time.Duration(10))
		}
		bcB, errB = j.CompileRoute("r", zzDef(0))
		done <- struct{}{}
	}()
	<-done
	<-done
	zzCheckBytecode(bcA, errA, 0, "CompileRoute racing a recompilation")
	zzCheckBytecode(bcB, errB, 0, "CompileRoute after executions")
	zzverif.Reach("concurrent")
}

// Two routes through one JIT, both driven to the hot tiers: what one
// compilation learned (constants, copies) must not leak into the next.
// Route a:  $ v = 7  > v + 1        Route b (/p/:v):  > v - 3
func VerifC15_TwoRoutesHot() {
	j := NewJITCompilerWithConfig(2, 0)
	seven := &ast.LiteralExpr{Value: ast.IntLiteral{Value: 7}}
	ra := &ast.Route{Path: "/a", Method: ast.Get, Body: []ast.Statement{
		&ast.AssignStatement{Target: "v", Value: seven},
		&ast.ReturnStatement{Value: &ast.BinaryOpExpr{Op: ast.Add, Left: &ast.VariableExpr{Name: "v"}, Right: &ast.LiteralExpr{Value: ast.IntLiteral{Value: 1}}}}}}
	rb := &ast.Route{Path: "/p/:v", Method: ast.Get, Body: []ast.Statement{
		&ast.ReturnStatement{Value: &ast.BinaryOpExpr{Op: ast.Sub, Left: &ast.VariableExpr{Name: "v"}, Right: &ast.LiteralExpr{Value: ast.IntLiteral{Value: 3}}}}}}
	in := zzverif.Int64("v")
	check := func(bc []byte, err error, want int64, what string) {
		if err != nil {
			zzverif.Fail("jit-compile-error " + what)
			return
		}
		m := vm.NewVM()
		m.SetLocal("v", vm.IntValue{Val: in})
		m.SetMaxSteps(1000)
		res, rerr := m.Execute(bc)
		iv, ok := res.(vm.IntValue)
		zzverif.Assert(rerr == nil && ok && iv.Val == want, "stale-or-wrong-code-served "+what)
	}
	rounds := 2 + zzverif.Choice("rounds", 2)
	for k := 0; k < rounds; k++ {
		bc, err := j.CompileRoute("a", ra)
		check(bc, err, 8, "route a, two-route history")
		for e := 0; e < 3; e++ {
			j.RecordExecution("a", time.Duration(5))
		}
		bc, err = j.CompileRoute("b", rb)
		check(bc, err, in-3, "route b after route a, two-route history")
		for e := 0; e < 3; e++ {
			j.RecordExecution("b", time.Duration(5))
		}
	}
	zzverif.Reach("tworoutes")
}

// Bytecode a caller got earlier stays what it was: a request may still be
// executing it when the route is promoted to the next tier. Every slice handed
// out during a tier-up history is executed again at the end and must still mean
// the definition it was compiled from. The route's body has a foldable
// subexpression, so the tiers differ in length.
func VerifC15_HeldBytecodeSurvivesTierUp() {
	j := NewJITCompilerWithConfig(2, 0)
	in := &ast.VariableExpr{Name: "input"}
	lit := func(v int64) ast.Expr { return &ast.LiteralExpr{Value: ast.IntLiteral{Value: v}} }
	// > input + (2 * 3 + 4)   and a variant with a longer constant expression
	var body ast.Expr = &ast.BinaryOpExpr{Op: ast.Add, Left: in, Right: &ast.BinaryOpExpr{Op: ast.Add, Left: &ast.BinaryOpExpr{Op: ast.Mul, Left: lit(2), Right: lit(3)}, Right: lit(4)}}
	want := int64(10)
	if zzverif.Choice("shape", 2) == 1 {
		body = &ast.BinaryOpExpr{Op: ast.Add, Left: &ast.BinaryOpExpr{Op: ast.Sub, Left: lit(9), Right: &ast.BinaryOpExpr{Op: ast.Mul, Left: lit(2), Right: lit(2)}}, Right: in}
		want = 5
	}
	route := &ast.Route{Path: "/r", Method: ast.Get, Body: []ast.Statement{&ast.ReturnStatement{Value: body}}}
	var held [][]byte
	rounds := 3 + zzverif.Choice("rounds", 2)
	for k := 0; k < rounds; k++ {
		bc, err := j.CompileRoute("r", route)
		if err != nil {
			zzverif.Fail("jit-compile-error held-bytecode")
		}
		held = append(held, bc)
		for e := 0; e < 3; e++ {
			j.RecordExecution("r", time.Duration(5))
		}
	}
	x := zzverif.Int64("input")
	for _, bc := range held {
		m := vm.NewVM()
		m.SetLocal("input", vm.IntValue{Val: x})
		m.SetMaxSteps(1000)
		res, rerr := m.Execute(bc)
		iv, ok := res.(vm.IntValue)
		zzverif.Assert(rerr == nil && ok && iv.Val == x+want, "bytecode handed out earlier changed after a later tier-up")
	}
	zzverif.Reach("held")
}
