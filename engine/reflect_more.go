package main

// Additions to the modelled reflect: method values, Call with its documented
// panics, Implements, IsVariadic, Method(i).

import (
	"fmt"
	"go/types"
	"sort"

	"golang.org/x/tools/go/ssa"
)

// boundMethod is the payload of a reflect.Value obtained from MethodByName.
type boundMethod struct {
	recv value
	fn   *ssa.Function
	sig  *types.Signature // without receiver
}

func stringPanic(fr *frame, msg string) {
	panic(targetPanic{iface{types.Typ[types.String], msg}})
}

func exportedMethods(i *interpreter, t types.Type) []*types.Selection {
	ms := i.prog.MethodSets.MethodSet(t)
	var out []*types.Selection
	for k := 0; k < ms.Len(); k++ {
		if ms.At(k).Obj().Exported() {
			out = append(out, ms.At(k))
		}
	}
	sort.Slice(out, func(a, b int) bool { return out[a].Obj().Name() < out[b].Obj().Name() })
	return out
}

func init() {
	externals["reflect.TypeOf"] = func(fr *frame, args []value) value {
		itf := args[0].(iface)
		if itf.t == nil {
			return iface{}
		}
		return makeReflectType(rtype{itf.t})
	}
	externals["(reflect.Value).IsValid"] = func(fr *frame, args []value) value {
		st := args[0].(structure)
		rt, ok := st[0].(rtype)
		return ok && rt.t != nil
	}
	externals["(reflect.Value).MethodByName"] = func(fr *frame, args []value) value {
		i := fr.i
		t := rV2T(args[0]).t
		recv := rV2V(args[0])
		for _, sel := range exportedMethods(i, t) {
			name := sel.Obj().Name()
			if fr.cond(eqValue(fr, types.Typ[types.String], args[1], name)) {
				fn := i.prog.MethodValue(sel)
				if fn == nil {
					panic(engineErr{"no SSA for method " + name})
				}
				full := sel.Type().(*types.Signature)
				sig := types.NewSignatureType(nil, nil, nil, full.Params(), full.Results(), full.Variadic())
				i.methodLookups = append(i.methodLookups, t.String()+"."+name)
				return makeReflectValue(sig, &boundMethod{recv: recv, fn: fn, sig: sig})
			}
		}
		return makeReflectValue(nil, nil)
	}
	externals["(reflect.Value).NumMethod"] = func(fr *frame, args []value) value {
		return len(exportedMethods(fr.i, rV2T(args[0]).t))
	}
	externals["(reflect.rtype).NumMethod"] = func(fr *frame, args []value) value {
		return len(exportedMethods(fr.i, args[0].(rtype).t))
	}
	externals["(reflect.rtype).Comparable"] = func(fr *frame, args []value) value {
		return types.Comparable(args[0].(rtype).t)
	}
	externals["(reflect.rtype).Name"] = func(fr *frame, args []value) value {
		if n, ok := args[0].(rtype).t.(*types.Named); ok {
			return n.Obj().Name()
		}
		if b, ok := args[0].(rtype).t.(*types.Basic); ok {
			return b.Name()
		}
		return ""
	}
	externals["(reflect.rtype).AssignableTo"] = func(fr *frame, args []value) value {
		return types.AssignableTo(args[0].(rtype).t, args[1].(iface).v.(rtype).t)
	}
	externals["(reflect.rtype).IsVariadic"] = func(fr *frame, args []value) value {
		return args[0].(rtype).t.(*types.Signature).Variadic()
	}
	externals["(reflect.rtype).Implements"] = func(fr *frame, args []value) value {
		t := args[0].(rtype).t
		u := args[1].(iface).v.(rtype).t
		it, ok := u.Underlying().(*types.Interface)
		if !ok {
			stringPanic(fr, "reflect: non-interface type passed to Type.Implements")
		}
		return types.Implements(t, it)
	}
	externals["(reflect.rtype).Method"] = func(fr *frame, args []value) value {
		ms := exportedMethods(fr.i, args[0].(rtype).t)
		k := int(asInt64(args[1]))
		if k < 0 || k >= len(ms) {
			stringPanic(fr, "reflect: Method index out of range")
		}
		mt := fr.i.namedType("reflect", "Method")
		st := zero(mt).(structure)
		st[0] = ms[k].Obj().Name()
		return st
	}
	externals["(reflect.Value).Call"] = func(fr *frame, args []value) value {
		i := fr.i
		bm, ok := rV2V(args[0]).(*boundMethod)
		if !ok {
			panic(engineErr{fmt.Sprintf("UNSUPPORTED reflect.Value.Call on %T", rV2V(args[0]))})
		}
		in, _ := args[1].([]value)
		sig := bm.sig
		np := sig.Params().Len()
		if sig.Variadic() {
			if len(in) < np-1 {
				stringPanic(fr, "reflect: Call with too few input arguments")
			}
		} else {
			if len(in) < np {
				stringPanic(fr, "reflect: Call with too few input arguments")
			}
			if len(in) > np {
				stringPanic(fr, "reflect: Call with too many input arguments")
			}
		}
		callArgs := []value{bm.recv}
		conv := func(av value, pt types.Type) value {
			st := av.(structure)
			rt, ok := st[0].(rtype)
			if !ok || rt.t == nil {
				stringPanic(fr, "reflect: Call using zero Value argument")
			}
			if !types.AssignableTo(rt.t, pt) {
				stringPanic(fr, "reflect: Call using "+rt.t.String()+" as type "+pt.String())
			}
			if _, isI := pt.Underlying().(*types.Interface); isI {
				if _, already := rt.t.Underlying().(*types.Interface); already {
					return st[1]
				}
				return iface{t: rt.t, v: st[1]}
			}
			return st[1]
		}
		fixed := np
		if sig.Variadic() {
			fixed = np - 1
		}
		for k := 0; k < fixed; k++ {
			callArgs = append(callArgs, conv(in[k], sig.Params().At(k).Type()))
		}
		if sig.Variadic() {
			et := sig.Params().At(np - 1).Type().(*types.Slice).Elem()
			var rest []value
			for k := fixed; k < len(in); k++ {
				rest = append(rest, conv(in[k], et))
			}
			callArgs = append(callArgs, rest)
		}
		i.methodCalls = append(i.methodCalls, bm.fn.String())
		res := call(i, fr, fr.callpos, bm.fn, callArgs)
		nr := sig.Results().Len()
		out := make([]value, nr)
		switch nr {
		case 0:
		case 1:
			out[0] = makeReflectValue(sig.Results().At(0).Type(), res)
		default:
			tup := res.(tuple)
			for k := 0; k < nr; k++ {
				out[k] = makeReflectValue(sig.Results().At(k).Type(), tup[k])
			}
		}
		return out
	}
	externals["(reflect.Value).Interface"] = func(fr *frame, args []value) value {
		t := rV2T(args[0]).t
		v := rV2V(args[0])
		if t == nil {
			stringPanic(fr, "reflect: call of reflect.Value.Interface on zero Value")
		}
		if _, isI := t.Underlying().(*types.Interface); isI {
			if itf, ok := v.(iface); ok {
				return itf
			}
		}
		return iface{t, v}
	}
}

// Type.MethodByName / Value.Method(i): the index form of a method lookup (the
// sorted exported method set is reflect's own numbering).
func bindMethod(fr *frame, recvRV value, sel *types.Selection) value {
	i := fr.i
	t := rV2T(recvRV).t
	name := sel.Obj().Name()
	fn := i.prog.MethodValue(sel)
	if fn == nil {
		panic(engineErr{"no SSA for method " + name})
	}
	full := sel.Type().(*types.Signature)
	sig := types.NewSignatureType(nil, nil, nil, full.Params(), full.Results(), full.Variadic())
	i.methodLookups = append(i.methodLookups, t.String()+"."+name)
	return makeReflectValue(sig, &boundMethod{recv: rV2V(recvRV), fn: fn, sig: sig})
}

func init() {
	externals["(reflect.rtype).MethodByName"] = func(fr *frame, args []value) value {
		ms := exportedMethods(fr.i, args[0].(rtype).t)
		mt := fr.i.namedType("reflect", "Method")
		for k, sel := range ms {
			name := sel.Obj().Name()
			if fr.cond(eqValue(fr, types.Typ[types.String], args[1], name)) {
				st := zero(mt).(structure)
				st[0] = name
				st[4] = int(k)
				return tuple{st, true}
			}
		}
		return tuple{zero(mt), false}
	}
	externals["(reflect.Value).Method"] = func(fr *frame, args []value) value {
		ms := exportedMethods(fr.i, rV2T(args[0]).t)
		for k, sel := range ms {
			if fr.cond(eqValue(fr, types.Typ[types.Int], args[1], int(k))) {
				return bindMethod(fr, args[0], sel)
			}
		}
		stringPanic(fr, "reflect: Method index out of range")
		return nil
	}
}
