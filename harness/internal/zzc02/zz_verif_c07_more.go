package zzc02

// C07 — recursive types and defaults across requests (interpreter path, programs
// from source text).

import (
	"github.com/glyphlang/glyph/internal/zzverif"
	"github.com/glyphlang/glyph/pkg/ast"
	"github.com/glyphlang/glyph/pkg/interpreter"
	"github.com/glyphlang/glyph/pkg/parser"
)

func zzLoadSource(src string) (*interpreter.Interpreter, map[string]*ast.Route) {
	toks, err := parser.NewLexer(src).Tokenize()
	if err != nil {
		panic("harness program does not lex: " + err.Error())
	}
	m, err := parser.NewParser(toks).Parse()
	if err != nil {
		panic("harness program does not parse: " + err.Error())
	}
	in := interpreter.NewInterpreter()
	if err := in.LoadModule(*m); err != nil {
		panic("harness program does not load: " + err.Error())
	}
	routes := map[string]*ast.Route{}
	for _, it := range m.Items {
		if r, ok := it.(*ast.Route); ok {
			routes[r.Path] = r
		}
	}
	return in, routes
}

// a type that contains itself (a comment with replies, a folder with a parent):
// a violation at any depth is a violation
const srcRecursive = `
: Comment {
  author: str!
  likes: int
  replies: [Comment]
  parent: Comment
}

@ POST /c {
  < input: Comment
  > {ran: true, author: input.author}
}

@ GET /out/:bad -> Comment {
  if bad == "deep" {
    > {author: "ann", likes: 1, replies: [{author: "bob", likes: "many"}]}
  }
  if bad == "parent" {
    > {author: "ann", parent: {likes: 2}}
  }
  > {author: "ann", likes: 1, replies: [{author: "bob", replies: []}]}
}
`

// zzComment builds a comment; defect 0 none, 1 author missing, 2 author null,
// 3 author a number, 4 likes a string
func zzComment(defect int) map[string]interface{} {
	c := map[string]interface{}{"author": "a", "likes": float64(1)}
	switch defect {
	case 1:
		delete(c, "author")
	case 2:
		c["author"] = nil
	case 3:
		c["author"] = float64(5)
	case 4:
		c["likes"] = "many"
	}
	return c
}

func VerifC07_RecursiveInput() {
	in, routes := zzLoadSource(srcRecursive)
	where := zzverif.Choice("where the defect is", 5) // 0 root, 1 a reply, 2 a reply's reply, 3 parent, 4 parent's reply
	defect := zzverif.Choice("defect", 5)
	mk := func(level int) map[string]interface{} {
		if level == where {
			return zzComment(defect)
		}
		return zzComment(0)
	}
	root := mk(0)
	reply := mk(1)
	reply["replies"] = []interface{}{mk(2)}
	root["replies"] = []interface{}{zzComment(0), reply}
	parent := mk(3)
	parent["replies"] = []interface{}{mk(4)}
	root["parent"] = parent
	resp, err := in.ExecuteRoute(routes["/c"], &interpreter.Request{Path: "/c", Method: "POST", Body: root})
	ran := err == nil && resp != nil && resp.StatusCode == 200
	name := []string{"root", "reply", "reply-of-reply", "parent", "reply-of-parent"}[where] + " defect " + []string{"none", "author-missing", "author-null", "author-number", "likes-string"}[defect]
	if defect == 0 {
		zzverif.Assert(ran, "recursive type: conforming input rejected ("+name+")")
	} else {
		zzverif.Assert(!ran, "recursive type: body ran on input violating the declaration at "+name)
		zzverif.Assert(resp != nil && resp.StatusCode >= 400 && resp.StatusCode < 500, "recursive type: rejection is not 4xx ("+name+")")
	}
	zzverif.Reach("recursive-input")
}

func VerifC07_RecursiveReturn() {
	in, routes := zzLoadSource(srcRecursive)
	bad := []string{"ok", "deep", "parent"}[zzverif.Choice("returned value", 3)]
	r := routes["/out/:bad"]
	resp, err := in.ExecuteRoute(r, &interpreter.Request{Path: "/out/" + bad, Method: "GET", Params: map[string]string{"bad": bad}})
	delivered := err == nil && resp != nil && resp.StatusCode >= 200 && resp.StatusCode < 300
	if bad == "ok" {
		zzverif.Assert(delivered, "recursive return type: conforming value not delivered")
	} else {
		zzverif.Assert(!delivered, "recursive return type: the client receives a value violating the declaration ("+bad+")")
	}
	zzverif.Reach("recursive-return")
}

// defaults across requests on one long-lived interpreter: a request that omits
// a defaulted field sees the declared default, whatever earlier requests did
// with the value they were given
const srcDefaults = `
: Prefs {
  theme: str = "light"
  limit: int = 10
}

: Signup {
  name: str!
  tags: [str] = ["new"]
  prefs: Prefs = {theme: "light", limit: 10}
  count: int = 3
}

@ POST /signup {
  < input: Signup
  if input.name == "admin" {
    $ input.prefs.theme = "dark"
    $ input.tags[0] = "staff"
    $ input.count = 99
  }
  > {tag: input.tags[0], ntags: length(input.tags), theme: input.prefs.theme, limit: input.prefs.limit, count: input.count}
}
`

func VerifC07_DefaultsAcrossRequests() {
	in, routes := zzLoadSource(srcDefaults)
	r := routes["/signup"]
	n := 2 + zzverif.Choice("requests", 2)
	for k := 0; k < n; k++ {
		name := []string{"admin", "bob"}[zzverif.Choice("name", 2)]
		body := map[string]interface{}{"name": name}
		ownTags := zzverif.Bool("sends its own tags")
		if ownTags {
			body["tags"] = []interface{}{"mine", "too"}
		}
		resp, err := in.ExecuteRoute(r, &interpreter.Request{Path: "/signup", Method: "POST", Body: body})
		zzverif.Assert(err == nil && resp != nil && resp.StatusCode == 200, "defaults: conforming request rejected")
		out, ok := resp.Body.(map[string]interface{})
		zzverif.Assert(ok, "defaults: unexpected response")
		wantTag, wantN, wantTheme, wantCount := "new", int64(1), "light", int64(3)
		if ownTags {
			wantTag, wantN = "mine", 2
		}
		if name == "admin" {
			wantTag, wantTheme, wantCount = "staff", "dark", 99
		}
		zzverif.Assert(out["tag"] == interface{}(wantTag) && out["ntags"] == interface{}(wantN), "defaults: list default is not the declared one (an earlier request's change shows)")
		zzverif.Assert(out["theme"] == interface{}(wantTheme) && out["limit"] == interface{}(int64(10)), "defaults: object default is not the declared one (an earlier request's change shows)")
		zzverif.Assert(out["count"] == interface{}(wantCount), "defaults: scalar default is not the declared one")
	}
	zzverif.Reach("defaults-across")
}
