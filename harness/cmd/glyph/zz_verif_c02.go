package main

// C02-O4 — request binding parity: the compiled and the interpreted handler
// answer the same request (declared query parameters with and without
// defaults, present / absent / unparsable values, path parameters) with the
// same status and the same JSON value.

import (
	"encoding/json"
	"io"
	"net/http"
	"net/url"
	"strings"

	"github.com/glyphlang/glyph/internal/zzverif"
	"github.com/glyphlang/glyph/pkg/ast"
	"github.com/glyphlang/glyph/pkg/compiler"
	"github.com/glyphlang/glyph/pkg/interpreter"
	"github.com/glyphlang/glyph/pkg/server"
	"github.com/glyphlang/glyph/pkg/vm"
)

// zzNorm turns what a handler handed to the JSON encoder into plain Go values.
func zzNorm(v interface{}) interface{} {
	switch x := v.(type) {
	case vm.NullValue:
		return nil
	case vm.IntValue:
		return x.Val
	case vm.FloatValue:
		return zzNorm(x.Val) // on the wire an integral float and an int are the same JSON number
	case vm.BoolValue:
		return x.Val
	case vm.StringValue:
		return x.Val
	case vm.ArrayValue:
		out := make([]interface{}, len(x.Val))
		for i, e := range x.Val {
			out[i] = zzNorm(e)
		}
		return out
	case vm.ObjectValue:
		out := make(map[string]interface{}, len(x.Val))
		for k, e := range x.Val {
			out[k] = zzNorm(e)
		}
		return out
	case float64:
		// the native side reads the response text back: JSON numbers are floats there
		if x == float64(int64(x)) {
			return int64(x)
		}
		return x
	case []interface{}:
		out := make([]interface{}, len(x))
		for i, e := range x {
			out[i] = zzNorm(e)
		}
		return out
	case map[string]interface{}:
		out := make(map[string]interface{}, len(x))
		for k, e := range x {
			out[k] = zzNorm(e)
		}
		return out
	case map[string]string:
		out := make(map[string]interface{}, len(x))
		for k, e := range x {
			out[k] = e
		}
		return out
	case int:
		return int64(x)
	}
	return v
}

func zzSameJSON(a, b interface{}) bool {
	switch x := a.(type) {
	case nil:
		return b == nil
	case []interface{}:
		y, ok := b.([]interface{})
		if !ok || len(x) != len(y) {
			return false
		}
		for i := range x {
			if !zzSameJSON(x[i], y[i]) {
				return false
			}
		}
		return true
	case map[string]interface{}:
		y, ok := b.(map[string]interface{})
		if !ok || len(x) != len(y) {
			return false
		}
		for k, e := range x {
			f, ok := y[k]
			if !ok || !zzSameJSON(e, f) {
				return false
			}
		}
		return true
	}
	switch b.(type) {
	case []interface{}, map[string]interface{}:
		return false
	}
	return a == b
}

func zzParseRoute(src string) *ast.Route {
	m, err := parseSource(src)
	if err != nil {
		panic("harness route does not parse: " + err.Error())
	}
	for _, it := range m.Items {
		if r, ok := it.(*ast.Route); ok {
			return r
		}
	}
	panic("harness source has no route")
}

type zzAnswer struct {
	status int
	body   interface{}
}

func zzAsk(h server.RouteHandler, req *http.Request, params map[string]string) zzAnswer {
	rec := &zzRec{}
	ctx := &server.Context{Request: req, ResponseWriter: rec, StatusCode: 200, PathParams: params}
	before := zzverif.JSONCount()
	h(ctx)
	st := ctx.StatusCode
	if rec.wrote {
		st = rec.status
	}
	var body interface{}
	if zzverif.Symbolic() {
		if zzverif.JSONCount() > before {
			body = zzNorm(zzverif.JSONValue(zzverif.JSONCount() - 1))
		}
	} else {
		body = zzNorm(zzLastJSON(rec))
	}
	return zzAnswer{st, body}
}

var zzQueryExprs = []string{"cat", "page", "flag", "query.cat", "query.page", "id", "page + 1", "{c: cat, p: page, f: flag}", "query"}

// declared query parameters: str without default, int with default, bool without default
func VerifC02_QueryBinding() {
	k := zzverif.Choice("expr", len(zzQueryExprs))
	route := zzParseRoute("@ GET /s/:id {\n  ? cat: str\n  ? page: int = 1\n  ? flag: bool\n  > " + zzQueryExprs[k] + "\n}\n")
	// the request's query string: each parameter present or not, values symbolic
	q := ""
	add := func(name, val string) {
		if q != "" {
			q += "&"
		}
		q += name + "=" + val
	}
	if zzverif.Bool("hasCat") {
		add("cat", zzverif.StringFrom("cat", 1, "a7"))
	}
	if zzverif.Bool("hasPage") {
		add("page", zzverif.StringFrom("page", 1, "7x"))
	}
	if zzverif.Bool("hasFlag") {
		add("flag", []string{"true", "false", "x"}[zzverif.Choice("flag", 3)])
	}
	if zzverif.Bool("hasExtra") {
		add("other", "1")
	}
	req := &http.Request{Method: "GET", Header: http.Header{}, URL: &url.URL{Path: "/s/9", RawQuery: q}, RemoteAddr: "10.0.0.1:1"}
	params := map[string]string{"id": "9"}
	bc, err := compiler.NewCompilerWithOptLevel(compiler.OptBasic).CompileRoute(route)
	if err != nil {
		zzverif.Fail("query-binding route does not compile: > " + zzQueryExprs[k])
	}
	iv := zzAsk(createRouteHandler(route, interpreter.NewInterpreter()), req, params)
	cv := zzAsk(createCompiledRouteHandler(route, bc, nil), req, params)
	name := "query-binding > " + zzQueryExprs[k]
	zzverif.Assert(iv.status == cv.status, name+": status differs between the interpreted and the compiled handler")
	if iv.status == 200 {
		zzverif.Assert(zzSameJSON(iv.body, cv.body), name+": body differs between the interpreted and the compiled handler")
	}
	zzverif.Reach("query")
}

// ---------------------------------------------------------------------------
// request bodies

type zzDummyBody struct{}

func (zzDummyBody) Read(p []byte) (int, error) { return 0, io.EOF }
func (zzDummyBody) Close() error               { return nil }

// zzBody hands the handlers a request body holding the JSON text of v (or an
// empty body); under the engine the decoded value is declared instead.
func zzBody(v interface{}, present bool) io.ReadCloser {
	if zzverif.Symbolic() {
		zzverif.SetJSONBody(v, present)
		return zzDummyBody{}
	}
	if !present {
		return io.NopCloser(strings.NewReader(""))
	}
	b, err := json.Marshal(v)
	if err != nil {
		panic(err)
	}
	return io.NopCloser(strings.NewReader(string(b)))
}

var zzBodyExprs = []string{"input.name", "input.qty", "input", "input.qty + 1"}
var zzBodyMethods = []string{"POST", "PUT", "PATCH"}
var zzContentTypes = []string{"", "application/json", "application/json; charset=utf-8", "text/plain", "application/json-patch+json", "Application/JSON", "application/jsonrequest", "application/json; charset"}

// zzItemBody builds a request body for type Item {name: str!, qty: int = 1}
func zzItemBody() (v interface{}, present bool, shape string) {
	switch zzverif.Choice("body", 4) {
	case 0:
		return nil, false, "absent"
	case 1:
		return nil, true, "null"
	case 2:
		return []interface{}{float64(1)}, true, "array"
	}
	obj := map[string]interface{}{}
	shape = "object"
	switch zzverif.Choice("name", 4) {
	case 0:
		shape += " name:missing"
	case 1:
		obj["name"], shape = nil, shape+" name:null"
	case 2:
		obj["name"], shape = zzverif.StringFrom("nameval", 1, "ab"), shape+" name:str"
	case 3:
		obj["name"], shape = float64(3), shape+" name:number"
	}
	switch zzverif.Choice("qty", 4) {
	case 0:
		shape += " qty:missing"
	case 1:
		obj["qty"], shape = float64(int64(zzverif.IntRange("qtyval", -2, 2))), shape+" qty:integral"
	case 2:
		obj["qty"], shape = 2.5, shape+" qty:fractional"
	case 3:
		obj["qty"], shape = "7", shape+" qty:str"
	}
	if zzverif.Bool("extra") {
		obj["note"] = "x"
	}
	return obj, true, shape
}

func VerifC02_BodyBinding() {
	k := zzverif.Choice("expr", len(zzBodyExprs))
	method := zzBodyMethods[zzverif.Choice("method", len(zzBodyMethods))]
	ct := zzContentTypes[zzverif.Choice("ctype", len(zzContentTypes))]
	src := ": Item {\n  name: str!\n  qty: int = 1\n}\n\n@ " + method + " /items {\n  < input: Item\n  > " + zzBodyExprs[k] + "\n}\n"
	m, err := parseSource(src)
	if err != nil {
		panic("harness program does not parse: " + err.Error())
	}
	var route *ast.Route
	for _, it := range m.Items {
		if r, ok := it.(*ast.Route); ok {
			route = r
		}
	}
	in := interpreter.NewInterpreter()
	if err := in.LoadModule(*m); err != nil {
		panic("harness program does not load: " + err.Error())
	}
	setCompiledTypeDefs(m)
	bc, err := compiler.NewCompilerWithOptLevel(compiler.OptBasic).CompileRoute(route)
	if err != nil {
		zzverif.Fail("body-binding route does not compile: > " + zzBodyExprs[k])
	}
	v, present, shape := zzItemBody()
	mk := func() *http.Request {
		h := http.Header{}
		if ct != "" {
			h.Set("Content-Type", ct)
		}
		return &http.Request{Method: method, Header: h, URL: &url.URL{Path: "/items"}, RemoteAddr: "10.0.0.1:1", Body: zzBody(v, present)}
	}
	iv := zzAsk(createRouteHandler(route, in), mk(), nil)
	cv := zzAsk(createCompiledRouteHandler(route, bc, nil), mk(), nil)
	name := "body-binding > " + zzBodyExprs[k] + " ctype:" + ct + " body:" + shape
	same := iv.status == cv.status || (iv.status >= 400 && iv.status < 500 && cv.status >= 400 && cv.status < 500)
	zzverif.Assert(same, name+": status differs between the interpreted and the compiled handler")
	if iv.status == 200 && cv.status == 200 {
		zzverif.Assert(zzSameJSON(iv.body, cv.body), name+": body differs between the interpreted and the compiled handler")
	}
	zzverif.Reach("body")
}
