package server

// C11 — client identity: getClientIP strips the port and ignores forwarding
// headers unless proxies are explicitly trusted.

import (
	"net/http"

	"github.com/glyphlang/glyph/internal/zzverif"
)

func VerifC11_ClientIP() {
	host := zzverif.StringFrom("host", 3, "0123456789.a")
	port := zzverif.StringFrom("port", 2, "0123456789")
	xff := zzverif.StringFrom("xff", 4, "0123456789., :a")
	r := &http.Request{Header: http.Header{}, RemoteAddr: host + ":" + port}
	// each forwarding header present or not (a guard that covers only one of
	// them shows when the other one is sent alone)
	if zzverif.Bool("hasXFF") {
		r.Header["X-Forwarded-For"] = []string{xff}
	}
	if zzverif.Bool("hasRealIP") {
		r.Header["X-Real-Ip"] = []string{"7.7.7.7"}
	}
	got := getClientIP(r, false)
	zzverif.Assert(got == host, "untrusted-identity-is-not-the-remote-host")

	// proxies trusted, but only from a configured proxy address
	SetTrustedProxies([]string{"10.9.9.9"})
	got = getClientIP(r, true)
	zzverif.Assert(got == host, "forwarding-header-honoured-from-untrusted-peer")
	SetTrustedProxies(nil)
	zzverif.Reach("clientip")
}

// IPv6 peers: "[host]:port". The identity is the host between the brackets, so
// two different peers never share a bucket or a lockout record.
func VerifC11_ClientIPv6() {
	h6 := zzverif.StringFrom("host", 4, "0123456789abcdef:")
	port := zzverif.StringFrom("port", 2, "0123456789")
	r := &http.Request{Header: http.Header{}, RemoteAddr: "[" + h6 + "]:" + port}
	if zzverif.Bool("hasXFF") {
		r.Header["X-Forwarded-For"] = []string{"9.9.9.9"}
	}
	got := getClientIP(r, false)
	zzverif.Assert(got == h6, "ipv6-identity-is-not-the-remote-host")
	SetTrustedProxies([]string{"10.9.9.9"})
	got = getClientIP(r, true)
	zzverif.Assert(got == h6, "ipv6-forwarding-header-honoured-from-untrusted-peer")
	SetTrustedProxies(nil)
	zzverif.Reach("clientip6")
}

func VerifC11_ClientIPTwin() {
	host := zzverif.StringFrom("host", 2, "01.")
	r := &http.Request{Header: http.Header{}, RemoteAddr: host + ":80"}
	r.Header["X-Forwarded-For"] = []string{"1.2.3.4"}
	zzverif.Assert(getClientIP(r, true) == host, "twin-must-fail")
	zzverif.Reach("twin")
}
