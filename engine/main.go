package main

import (
	"encoding/json"
	"flag"
	"fmt"
	"go/types"
	"os"
	"path/filepath"
	"runtime"
	"runtime/pprof"
	"sort"
	"strconv"
	"strings"
	"time"

	"golang.org/x/tools/go/packages"
	"golang.org/x/tools/go/ssa"
	"golang.org/x/tools/go/ssa/ssautil"
)

type checkCfg struct {
	Property    string        `json:"property"`
	Level       string        `json:"level"`
	Packages    []string      `json:"packages"`
	Harnesses   []*harnessCfg `json:"harnesses"`
	Assumptions []string      `json:"assumptions"`
	Bounds      []string      `json:"bounds"`
	OutsideClaim []string     `json:"outside_claim"`
	Rule        string        `json:"rule"`
}

// repoDir is the tree under check: /repo, unless VERIF_REPO_DIR names another
// checkout of the same module (development only: seeded changes are tried in a
// scratch worktree so that /repo itself stays usable meanwhile).
var repoDir = func() string {
	if d := os.Getenv("VERIF_REPO_DIR"); d != "" {
		return d
	}
	return "/repo"
}()
const modPath = "github.com/glyphlang/glyph"

var verifDir = "/verif"

func goEnv() []string {
	env := os.Environ()
	env = append(env, "GOFLAGS=-mod=mod", "GOPROXY=off", "GOTOOLCHAIN=local", "GOSUMDB=off",
		"PATH=/opt/veriftools/go1.26.8/bin:"+os.Getenv("PATH"))
	return env
}

// overlayFiles maps virtual repo paths to real files under /verif.
func overlayFiles(native bool) map[string]string {
	ov := map[string]string{}
	hroot := filepath.Join(verifDir, "harness")
	filepath.Walk(hroot, func(p string, info os.FileInfo, err error) error {
		if err != nil || info.IsDir() || !strings.HasSuffix(p, ".go") {
			return nil
		}
		rel, _ := filepath.Rel(hroot, p)
		ov[filepath.Join(repoDir, rel)] = p
		return nil
	})
	rt := filepath.Join(verifDir, "rt", "zzverif")
	ents, _ := os.ReadDir(rt)
	for _, e := range ents {
		if strings.HasSuffix(e.Name(), ".go") {
			ov[filepath.Join(repoDir, "internal", "zzverif", e.Name())] = filepath.Join(rt, e.Name())
		}
	}
	return ov
}

func loadProgram(pkgPaths []string) (*program, error) {
	ov := map[string][]byte{}
	for virt, real := range overlayFiles(false) {
		b, err := os.ReadFile(real)
		if err != nil {
			return nil, err
		}
		ov[virt] = b
	}
	cfg := &packages.Config{
		Mode: packages.NeedName | packages.NeedFiles | packages.NeedCompiledGoFiles | packages.NeedImports |
			packages.NeedDeps | packages.NeedTypes | packages.NeedSyntax | packages.NeedTypesInfo | packages.NeedTypesSizes,
		Dir:     repoDir,
		Env:     goEnv(),
		Overlay: ov,
	}
	pats := append([]string{modPath + "/internal/zzverif"}, pkgPaths...)
	oldPath := os.Getenv("PATH")
	os.Setenv("PATH", "/opt/veriftools/go1.26.8/bin:"+oldPath)
	pkgs, err := packages.Load(cfg, pats...)
	os.Setenv("PATH", oldPath)
	if err != nil {
		return nil, err
	}
	nerr := 0
	packages.Visit(pkgs, nil, func(p *packages.Package) {
		for _, e := range p.Errors {
			if nerr < 20 {
				fmt.Fprintln(os.Stderr, "load error:", e)
			}
			nerr++
		}
	})
	if nerr > 0 {
		return nil, fmt.Errorf("%d package load errors", nerr)
	}
	prog, spkgs := ssautil.AllPackages(pkgs, ssa.InstantiateGenerics)
	prog.Build()
	p := &program{prog: prog, pkgs: map[string]*ssa.Package{}}
	for k, sp := range spkgs {
		if sp != nil {
			p.pkgs[pkgs[k].PkgPath] = sp
		}
	}
	p.sizes = pkgs[0].TypesSizes
	if p.sizes == nil {
		p.sizes = types.SizesFor("gc", "amd64")
	}
	initReflectShared(prog)
	return p, nil
}

type knownFinding struct {
	Property string `json:"property"`
	Harness  string `json:"harness"`
	Key      string `json:"key"`
	What     string `json:"what"`
	Fixed    string `json:"fixed,omitempty"`
}

func loadKnown() []knownFinding {
	var out []knownFinding
	b, err := os.ReadFile(filepath.Join(verifDir, "known_findings.jsonl"))
	if err != nil {
		return nil
	}
	for _, line := range strings.Split(string(b), "\n") {
		line = strings.TrimSpace(line)
		if line == "" || strings.HasPrefix(line, "#") {
			continue
		}
		var k knownFinding
		if json.Unmarshal([]byte(line), &k) == nil && k.Fixed == "" && k.Key != "" {
			out = append(out, k)
		}
	}
	return out
}

func main() {
	checkFile := flag.String("check", "", "check configuration (checks/Cxx.json)")
	tier := flag.String("tier", "quick", "quick|thorough")
	tierOnly := flag.Bool("tieronly", false, "development: run only the harnesses that name this tier explicitly")
	capS := flag.Int("cap", 0, "development: upper limit in seconds for every harness budget")
	only := flag.String("only", "", "run only harnesses whose name contains this")
	nworkers := flag.Int("j", 0, "workers (default: min(16,NumCPU))")
	noReplay := flag.Bool("noreplay", false, "skip native replay (development only; exit code 3)")
	trace := flag.Bool("trace", false, "trace calls")
	flag.StringVar(&verifDir, "verif", "/verif", "verif dir")
	cpuprof := flag.String("cpuprofile", "", "write cpu profile")
	flag.Parse()
	if *cpuprof != "" {
		f, _ := os.Create(*cpuprof)
		pprof.StartCPUProfile(f)
		defer pprof.StopCPUProfile()
	}
	if t := os.Getenv("VERIF_TIER"); t != "" && !isFlagSet("tier") {
		*tier = t
	}
	seed, _ := strconv.Atoi(os.Getenv("VERIF_SEED"))
	if *nworkers == 0 {
		*nworkers = runtime.NumCPU()
		if *nworkers > 16 {
			*nworkers = 16
		}
	}
	b, err := os.ReadFile(*checkFile)
	if err != nil {
		fmt.Fprintln(os.Stderr, "cannot read check:", err)
		os.Exit(2)
	}
	var cc checkCfg
	if err := json.Unmarshal(b, &cc); err != nil {
		fmt.Fprintln(os.Stderr, "bad check config:", err)
		os.Exit(2)
	}
	t0 := time.Now()
	p, err := loadProgram(cc.Packages)
	if err != nil {
		fmt.Fprintln(os.Stderr, "LOAD-FAILED:", err)
		os.Exit(2)
	}
	loadS := time.Since(t0).Seconds()
	res := newResults()
	workers := make([]*interpreter, *nworkers)
	for w := range workers {
		workers[w] = newInterpreter(p, res)
		workers[w].trace = *trace
		workers[w].solver = newSolver(workers[w].ts, solverTimeout(*tier))
	}
	_ = seed
	var ran []*harnessCfg
	for _, h := range cc.Harnesses {
		if h.TimeoutS == 0 && *tier == "quick" {
			// a quick-tier harness that is still exploring after 10 minutes is reported as
			// inconclusive (a changed implementation can make symbolic strings explode)
			h.TimeoutS = 600
		}
		h.defaults()
		if h.Tier != "" && h.Tier != *tier {
			continue
		}
		if *tierOnly && h.Tier != *tier {
			continue
		}
		if *capS > 0 && (h.TimeoutS == 0 || h.TimeoutS > *capS) {
			h.TimeoutS = *capS
		}
		if *only != "" && !strings.Contains(h.Name, *only) {
			continue
		}
		nw := *nworkers
		exploreHarness(p, res, h, nw, workers)
		ran = append(ran, h)
	}
	for _, w := range workers {
		res.solver.Queries += w.solver.stats.Queries
		res.solver.Sat += w.solver.stats.Sat
		res.solver.Unsat += w.solver.stats.Unsat
		res.solver.Unknown += w.solver.stats.Unknown
		res.solver.Seconds += w.solver.stats.Seconds
		for f, n := range w.funcsSeen {
			res.funcs[f.String()] += n
		}
		for s, n := range w.stubsHit {
			res.stubs[s] += n
		}
		w.solver.Close()
	}
	code := report(&cc, *tier, seed, res, ran, *noReplay, loadS, time.Since(t0).Seconds(), p)
	pprof.StopCPUProfile()
	os.Exit(code)
}

func isFlagSet(name string) bool {
	set := false
	flag.Visit(func(f *flag.Flag) {
		if f.Name == name {
			set = true
		}
	})
	return set
}

func sortedViolations(hr *harnessResult) []Violation {
	var vs []Violation
	for _, k := range sortedKeys(hr.Violations) {
		vs = append(vs, hr.Violations[k])
	}
	return vs
}

var _ = sort.Strings

func solverTimeout(tier string) int {
	if tier == "thorough" {
		return 60000
	}
	return 10000
}
