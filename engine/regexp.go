package main

// Model of regexp: patterns are concrete (taken from the repository's own
// globals at run time), subjects may contain symbolic bytes. MatchString is
// decided by simulating the pattern's NFA (regexp/syntax.Prog) position by
// position; every thread carries the condition under which it is alive.

import (
	"fmt"
	"regexp"
	"regexp/syntax"
	"unicode"
)

type reModel struct {
	src  string
	re   *regexp.Regexp
	prog *syntax.Prog
}

func newReModel(src string) (*reModel, error) {
	re, err := regexp.Compile(src)
	if err != nil {
		return nil, err
	}
	parsed, err := syntax.Parse(src, syntax.Perl)
	if err != nil {
		return nil, err
	}
	prog, err := syntax.Compile(parsed.Simplify())
	if err != nil {
		return nil, err
	}
	return &reModel{src: src, re: re, prog: prog}, nil
}

func reOf(v value) *reModel {
	p, ok := v.(*value)
	if !ok || p == nil {
		panic(runtimeErr{"invalid memory address or nil pointer dereference (nil *regexp.Regexp)"})
	}
	m, ok := (*p).(*reModel)
	if !ok {
		panic(engineErr{"UNSUPPORTED regexp value not created by the modelled regexp.MustCompile/Compile"})
	}
	return m
}

// classCond: condition that byte b (term, BV8) as a one-byte rune matches inst.
func (i *interpreter) reByteCond(inst *syntax.Inst, b *Term) *Term {
	ts := i.ts
	ascii := ts.bvCmp("bvult", b, ts.BV(0x80, 8))
	switch inst.Op {
	case syntax.InstRuneAny:
		return ascii
	case syntax.InstRuneAnyNotNL:
		return ts.And(ascii, ts.Not(ts.Eq(b, ts.BV('\n', 8))))
	case syntax.InstRune1:
		r := inst.Rune[0]
		if r >= 0x80 {
			return ts.tFalse
		}
		c := ts.Eq(b, ts.BV(uint64(r), 8))
		if syntax.Flags(inst.Arg)&syntax.FoldCase != 0 {
			for f := unicode.SimpleFold(r); f != r; f = unicode.SimpleFold(f) {
				if f < 0x80 {
					c = ts.Or(c, ts.Eq(b, ts.BV(uint64(f), 8)))
				}
			}
		}
		return c
	case syntax.InstRune:
		c := ts.tFalse
		rs := inst.Rune
		if len(rs) == 1 {
			rs = []rune{rs[0], rs[0]}
		}
		for k := 0; k+1 < len(rs); k += 2 {
			lo, hi := rs[k], rs[k+1]
			if lo >= 0x80 {
				continue
			}
			if hi >= 0x80 {
				hi = 0x7f
			}
			c = ts.Or(c, ts.And(ts.bvCmp("bvule", ts.BV(uint64(lo), 8), b), ts.bvCmp("bvule", b, ts.BV(uint64(hi), 8))))
		}
		if syntax.Flags(inst.Arg)&syntax.FoldCase != 0 {
			panic(engineErr{"UNSUPPORTED case-folding character class in modelled regexp"})
		}
		return ts.And(ascii, c)
	}
	panic(engineErr{fmt.Sprintf("UNSUPPORTED regexp instruction %v", inst.Op)})
}

// reMatch returns the condition under which the pattern matches subject.
func (i *interpreter) reMatch(m *reModel, subj []value) *Term {
	ts := i.ts
	n := len(subj)
	prog := m.prog
	anchoredStart := prog.StartCond()&syntax.EmptyBeginText != 0
	cur := map[uint32]*Term{}
	matched := ts.tFalse
	// non-ASCII bytes: a multi-byte rune never matches an ASCII-only class, and
	// consuming it would need rune widths; we therefore require that any byte
	// >= 0x80 kills the thread (sound for patterns whose classes are ASCII —
	// checked in reByteCond — when the match must cover such a byte).
	var add func(set map[uint32]*Term, pc uint32, cond *Term, pos int, depth int)
	add = func(set map[uint32]*Term, pc uint32, cond *Term, pos int, depth int) {
		if cond.isC && cond.cu == 0 {
			return
		}
		if depth > 10000 {
			panic(engineErr{"regexp model: epsilon closure too deep"})
		}
		inst := &prog.Inst[pc]
		switch inst.Op {
		case syntax.InstFail:
		case syntax.InstAlt, syntax.InstAltMatch:
			add(set, inst.Out, cond, pos, depth+1)
			add(set, inst.Arg, cond, pos, depth+1)
		case syntax.InstNop, syntax.InstCapture:
			add(set, inst.Out, cond, pos, depth+1)
		case syntax.InstEmptyWidth:
			fl := syntax.EmptyOp(inst.Arg)
			ok := true
			if fl&syntax.EmptyBeginText != 0 && pos != 0 {
				ok = false
			}
			if fl&syntax.EmptyEndText != 0 && pos != n {
				ok = false
			}
			if fl&^(syntax.EmptyBeginText|syntax.EmptyEndText) != 0 {
				panic(engineErr{"UNSUPPORTED regexp empty-width assertion (line/word boundary) in modelled regexp: " + m.src})
			}
			if ok {
				add(set, inst.Out, cond, pos, depth+1)
			}
		case syntax.InstMatch:
			// unanchored-at-end patterns match as soon as Match is reached
			matched = ts.Or(matched, cond)
		default:
			if old, ok := set[pc]; ok {
				set[pc] = ts.Or(old, cond)
			} else {
				set[pc] = cond
			}
		}
	}
	add(cur, uint32(prog.Start), ts.tTrue, 0, 0)
	for pos := 0; pos < n; pos++ {
		b := byteTerm(i, subj[pos])
		next := map[uint32]*Term{}
		for pc, cond := range cur {
			inst := &prog.Inst[pc]
			c := ts.And(cond, i.reByteCond(inst, b))
			add(next, inst.Out, c, pos+1, 0)
		}
		if !anchoredStart {
			add(next, uint32(prog.Start), ts.tTrue, pos+1, 0)
		}
		cur = next
	}
	return matched
}

func init() {
	mk := func(fr *frame, a []value, must bool) value {
		src := strArg(a[0])
		m, err := newReModel(src)
		if err != nil {
			if must {
				stringPanic(fr, "regexp: Compile("+src+"): "+err.Error())
			}
			return tuple{(*value)(nil), fr.i.newError("regexp: "+err.Error(), nil)}
		}
		var cell value = m
		if must {
			return &cell
		}
		return tuple{&cell, iface{}}
	}
	externals["regexp.MustCompile"] = func(fr *frame, a []value) value { return mk(fr, a, true) }
	externals["regexp.Compile"] = func(fr *frame, a []value) value { return mk(fr, a, false) }
	externals["(*regexp.Regexp).String"] = func(fr *frame, a []value) value { return reOf(a[0]).src }
	externals["(*regexp.Regexp).MatchString"] = func(fr *frame, a []value) value {
		m := reOf(a[0])
		if s, ok := a[1].(string); ok {
			return m.re.MatchString(s)
		}
		return boolVal(fr.i.reMatch(m, bytesOfStr(a[1])))
	}
	externals["(*regexp.Regexp).Match"] = func(fr *frame, a []value) value {
		m := reOf(a[0])
		b := a[1].([]value)
		if allConcrete([]value{b}) {
			return m.re.Match(goBytes(b))
		}
		return boolVal(fr.i.reMatch(m, b))
	}
	externals["regexp.MatchString"] = func(fr *frame, a []value) value {
		m, err := newReModel(strArg(a[0]))
		if err != nil {
			return tuple{false, fr.i.newError("regexp: "+err.Error(), nil)}
		}
		if s, ok := a[1].(string); ok {
			return tuple{m.re.MatchString(s), iface{}}
		}
		return tuple{boolVal(fr.i.reMatch(m, bytesOfStr(a[1]))), iface{}}
	}
	conc := func(name string, f func(m *reModel, fr *frame, a []value) value) {
		externals["(*regexp.Regexp)."+name] = func(fr *frame, a []value) value {
			if !allConcrete(a[1:]) {
				panic(engineErr{"UNSUPPORTED (*regexp.Regexp)." + name + " on a symbolic subject"})
			}
			return f(reOf(a[0]), fr, a)
		}
	}
	conc("FindStringSubmatch", func(m *reModel, fr *frame, a []value) value {
		return valStrSlice(m.re.FindStringSubmatch(a[1].(string)))
	})
	conc("FindString", func(m *reModel, fr *frame, a []value) value { return m.re.FindString(a[1].(string)) })
	conc("FindAllString", func(m *reModel, fr *frame, a []value) value {
		return valStrSlice(m.re.FindAllString(a[1].(string), a[2].(int)))
	})
	conc("ReplaceAllString", func(m *reModel, fr *frame, a []value) value {
		return m.re.ReplaceAllString(a[1].(string), a[2].(string))
	})
	conc("FindStringIndex", func(m *reModel, fr *frame, a []value) value {
		loc := m.re.FindStringIndex(a[1].(string))
		if loc == nil {
			return []value(nil)
		}
		return []value{loc[0], loc[1]}
	})
	conc("Split", func(m *reModel, fr *frame, a []value) value {
		return valStrSlice(m.re.Split(a[1].(string), a[2].(int)))
	})
}
