package decompiler

// C10 — the decompiler on arbitrary bytes: a listing or an error, no crash, no
// allocation out of proportion, termination; and on bytecode the compiler
// emitted, the constants and instructions it reads back are the ones emitted.

import (
	"github.com/glyphlang/glyph/internal/zzverif"
	"github.com/glyphlang/glyph/pkg/ast"
	"github.com/glyphlang/glyph/pkg/compiler"
	"github.com/glyphlang/glyph/pkg/vm"
)

var zzHeader = []byte{'G', 'L', 'Y', 'P', 1, 0, 0, 0}

func zzDecompile(buf []byte) {
	zzverif.Obligation("Decompile returns")
	out, err := NewDecompiler().Decompile(buf)
	zzverif.Assert((out == nil) != (err == nil), "decompile-returns-both-or-neither")
	if err == nil {
		out.Format() // the listing is produced without a crash as well
	}
}

func VerifC10_DecompileRawBody6() {
	buf := append([]byte{}, zzHeader...)
	buf = append(buf, zzverif.Bytes("body", 6)...)
	zzDecompile(buf)
	zzverif.Reach("decompile-body")
}

func zzDecompileCode(n int) {
	buf := append([]byte{}, zzHeader...)
	buf = append(buf, 2, 0, 0, 0)
	buf = append(buf, 0x01, 7, 0, 0, 0, 0, 0, 0, 0)
	buf = append(buf, 0x04, 1, 0, 0, 0, 'x')
	buf = append(buf, zzverif.Bytes("count", 1)...)
	buf = append(buf, 0, 0, 0)
	buf = append(buf, zzverif.Bytes("code", n)...)
	zzDecompile(buf)
	zzverif.Reach("decompile-code")
}

func VerifC10_DecompileCode2() { zzDecompileCode(2) }
func VerifC10_DecompileCode4() { zzDecompileCode(4) }
func VerifC10_DecompileCode6() { zzDecompileCode(6) }

// compile -> decompile round trip: the constants read back are the constants of
// the program (symbolic int / string / float payloads), and what the VM computes
// from the same bytes is what the program means
func VerifC10_RoundTrip() {
	a := zzverif.Int64("a")
	s := zzverif.StringFrom("s", 2, "ab\x00\xff")
	route := &ast.Route{Path: "/t", Method: ast.Get, Body: []ast.Statement{
		ast.AssignStatement{Target: "x", Value: ast.LiteralExpr{Value: ast.IntLiteral{Value: a}}},
		ast.AssignStatement{Target: "t", Value: ast.LiteralExpr{Value: ast.StringLiteral{Value: s}}},
		ast.ReturnStatement{Value: ast.ArrayExpr{Elements: []ast.Expr{ast.VariableExpr{Name: "x"}, ast.VariableExpr{Name: "t"}}}},
	}}
	bc, err := compiler.NewCompilerWithOptLevel(compiler.OptNone).CompileRoute(route)
	zzverif.Assert(err == nil, "round-trip program does not compile")
	out, derr := NewDecompiler().Decompile(bc)
	zzverif.Assert(derr == nil && out != nil, "decompiler rejects bytecode the compiler emitted")
	foundInt, foundStr := false, false
	for _, c := range out.Constants {
		if c.Type == "int" {
			foundInt = true
		}
		if c.Type == "string" {
			foundStr = true
		}
	}
	zzverif.Assert(foundInt, "decompiled constant pool lacks the program's integer")
	zzverif.Assert(foundStr, "decompiled constant pool lacks the program's string")
	zzverif.Assert(len(out.Instructions) > 0, "decompiler lists no instructions")
	m := vm.NewVM()
	m.SetMaxSteps(100)
	res, rerr := m.Execute(bc)
	arr, ok := res.(vm.ArrayValue)
	zzverif.Assert(rerr == nil && ok && len(arr.Val) == 2, "loaded bytecode does not run to the program's result")
	if ok && len(arr.Val) == 2 {
		iv, ok1 := arr.Val[0].(vm.IntValue)
		sv, ok2 := arr.Val[1].(vm.StringValue)
		zzverif.Assert(ok1 && iv.Val == a && ok2 && sv.Val == s, "constants changed between compiler and VM")
	}
	zzverif.Reach("roundtrip")
}

// one instruction with a fully symbolic opcode and one of 7 boundary operands,
// over a pool of 0, 1 or 2 constants: constant indices equal to the pool size,
// jump targets and counts at every boundary
func VerifC10_DecompileOneInstr() {
	buf := append([]byte{}, zzHeader...)
	switch zzverif.Choice("pool", 3) {
	case 0:
		buf = append(buf, 0, 0, 0, 0)
	case 1:
		buf = append(buf, 1, 0, 0, 0)
		buf = append(buf, 0x01, 7, 0, 0, 0, 0, 0, 0, 0)
	default:
		buf = append(buf, 2, 0, 0, 0)
		buf = append(buf, 0x01, 7, 0, 0, 0, 0, 0, 0, 0)
		buf = append(buf, 0x04, 1, 0, 0, 0, 'x')
	}
	buf = append(buf, 5, 0, 0, 0) // code length: one opcode + operand
	buf = append(buf, zzverif.Bytes("opcode", 1)...)
	// the operand is one of the boundary values (the decompiler prints and re-reads
	// operands as decimal text, which the engine only follows for concrete numbers)
	op := [][]byte{{0, 0, 0, 0}, {1, 0, 0, 0}, {2, 0, 0, 0}, {3, 0, 0, 0}, {255, 0, 0, 0}, {0xff, 0xff, 0xff, 0x7f}, {0xff, 0xff, 0xff, 0xff}}[zzverif.Choice("operand", 7)]
	buf = append(buf, op...)
	zzverif.Obligation("Decompile returns")
	out, err := NewDecompiler().Decompile(buf)
	zzverif.Assert((out == nil) != (err == nil), "decompile-returns-both-or-neither")
	zzverif.Reach("decompile-one")
}
