package main

// Engine-side implementation of the harness runtime package
// github.com/glyphlang/glyph/internal/zzverif.

import (
	"fmt"
	"go/types"
	"math"
	"strings"
)

const zzPkg = "github.com/glyphlang/glyph/internal/zzverif."

func sanitize(s string) string {
	var sb strings.Builder
	for _, c := range s {
		if c >= 'a' && c <= 'z' || c >= 'A' && c <= 'Z' || c >= '0' && c <= '9' || c == '_' {
			sb.WriteRune(c)
		} else {
			sb.WriteByte('_')
		}
	}
	return sb.String()
}

func strArg(v value) string {
	s, ok := v.(string)
	if !ok {
		panic(engineErr{fmt.Sprintf("zzverif: name/key argument must be a concrete string, got %T", v)})
	}
	return s
}

func (i *interpreter) newInput(name, kind string, so Sort) *Term {
	c := i.path
	if c == nil {
		panic(engineErr{"zzverif input requested outside a path"})
	}
	k := len(c.inputs)
	vname := fmt.Sprintf("in%d_%s_%s", k, kind, sanitize(name))
	t := i.ts.Var(vname, so)
	c.inputs = append(c.inputs, inputRec{name: name, kind: kind, term: t})
	return t
}

func init() {
	reg := func(name string, f externalFn) { externals[zzPkg+name] = f }

	reg("Int64", func(fr *frame, a []value) value {
		return &sym{fr.i.newInput(strArg(a[0]), "i64", bvSort(64))}
	})
	reg("Int", func(fr *frame, a []value) value {
		return &sym{fr.i.newInput(strArg(a[0]), "i64", bvSort(64))}
	})
	reg("Uint64", func(fr *frame, a []value) value {
		return &sym{fr.i.newInput(strArg(a[0]), "u64", bvSort(64))}
	})
	reg("Uint32", func(fr *frame, a []value) value {
		return &sym{fr.i.newInput(strArg(a[0]), "u32", bvSort(32))}
	})
	reg("Int32", func(fr *frame, a []value) value {
		return &sym{fr.i.newInput(strArg(a[0]), "i32", bvSort(32))}
	})
	reg("Byte", func(fr *frame, a []value) value {
		return &sym{fr.i.newInput(strArg(a[0]), "u8", bvSort(8))}
	})
	reg("Bool", func(fr *frame, a []value) value {
		return &sym{fr.i.newInput(strArg(a[0]), "bool", boolSort)}
	})
	reg("Float64", func(fr *frame, a []value) value {
		return &sym{fr.i.newInput(strArg(a[0]), "f64", fp64Sort)}
	})
	reg("Bytes", func(fr *frame, a []value) value {
		n := int(asInt64(a[1]))
		r := make([]value, n)
		for k := range r {
			r[k] = &sym{fr.i.newInput(fmt.Sprintf("%s[%d]", strArg(a[0]), k), "u8", bvSort(8))}
		}
		return r
	})
	reg("String", func(fr *frame, a []value) value {
		n := int(asInt64(a[1]))
		r := make([]value, n)
		for k := range r {
			r[k] = &sym{fr.i.newInput(fmt.Sprintf("%s[%d]", strArg(a[0]), k), "u8", bvSort(8))}
		}
		return mkstr(r)
	})
	byteFrom := func(fr *frame, name string, alpha string) value {
		i := fr.i
		t := i.newInput(name, "u8", bvSort(8))
		c := i.ts.tFalse
		for k := 0; k < len(alpha); k++ {
			c = i.ts.Or(c, i.ts.Eq(t, i.ts.BV(uint64(alpha[k]), 8)))
		}
		i.path.addPC(c)
		return &sym{t}
	}
	reg("ByteFrom", func(fr *frame, a []value) value {
		return byteFrom(fr, strArg(a[0]), strArg(a[1]))
	})
	reg("StringFrom", func(fr *frame, a []value) value {
		n := int(asInt64(a[1]))
		r := make([]value, n)
		for k := range r {
			r[k] = byteFrom(fr, fmt.Sprintf("%s[%d]", strArg(a[0]), k), strArg(a[2]))
		}
		return mkstr(r)
	})
	reg("IntRange", func(fr *frame, a []value) value {
		i := fr.i
		t := i.newInput(strArg(a[0]), "i64", bvSort(64))
		lo, hi := asInt64(a[1]), asInt64(a[2])
		i.path.addPC(i.ts.bvCmp("bvsle", i.ts.BV(uint64(lo), 64), t))
		i.path.addPC(i.ts.bvCmp("bvsle", t, i.ts.BV(uint64(hi), 64)))
		return &sym{t}
	})
	reg("Choice", func(fr *frame, a []value) value {
		n := int(asInt64(a[1]))
		k := fr.i.choice(n, strArg(a[0]))
		c := fr.i.path
		c.inputs = append(c.inputs, inputRec{name: strArg(a[0]), kind: "choice", val: uint64(k)})
		return k
	})
	reg("Assume", func(fr *frame, a []value) value {
		i := fr.i
		switch c := a[0].(type) {
		case bool:
			if !c {
				panic(pathAbort{"assume", "assumption false"})
			}
		case *sym:
			i.path.addPC(c.t)
			r := i.check()
			if r == rUnsat {
				panic(pathAbort{"assume", "assumption infeasible"})
			}
			if r == rUnknown {
				i.path.unknown++
			}
		}
		return nil
	})
	reg("Assert", func(fr *frame, a []value) value {
		i := fr.i
		key := strArg(a[1])
		i.path.asserts++
		i.results.assertSeen(i.cfg.Name, key)
		switch c := a[0].(type) {
		case bool:
			if !c {
				i.violationWith(fr, "assert", key, "assertion failed: "+key)
				panic(pathAbort{"violation", key})
			}
		case *sym:
			ts := i.ts
			i.violationWith(fr, "assert", key, "assertion failed: "+key, ts.Not(c.t))
			// continue under the assertion
			i.path.addPC(c.t)
			if i.check() == rUnsat {
				panic(pathAbort{"violation", key})
			}
		}
		return nil
	})
	reg("Fail", func(fr *frame, a []value) value {
		i := fr.i
		key := strArg(a[0])
		i.results.assertSeen(i.cfg.Name, key)
		i.violationWith(fr, "assert", key, "assertion failed: "+key)
		panic(pathAbort{"violation", key})
	})
	reg("Reach", func(fr *frame, a []value) value {
		fr.i.path.reached[strArg(a[0])] = true
		return nil
	})
	reg("Obligation", func(fr *frame, a []value) value {
		fr.i.path.obligation = strArg(a[0])
		return nil
	})
	reg("Observe", func(fr *frame, a []value) value {
		// records a concrete observation for path-witness validation
		fr.i.path.observations = append(fr.i.path.observations, strArg(a[0])+"="+toString(a[1]))
		return nil
	})
	reg("Symbolic", func(fr *frame, a []value) value { return true })
	reg("Setenv", func(fr *frame, a []value) value {
		k := strArg(a[0])
		old, had := fr.i.env[k]
		fr.i.env[k] = a[1]
		fr.i.onUndo(func() {
			if had {
				fr.i.env[k] = old
			} else {
				delete(fr.i.env, k)
			}
		})
		return nil
	})
	reg("IsConcrete", func(fr *frame, a []value) value {
		return !hasSym(a[0].(iface).v)
	})
	reg("AdvanceClock", func(fr *frame, a []value) value {
		fr.i.clockAdvance(fr, a[0])
		return nil
	})
	reg("Perturb", func(fr *frame, a []value) value { return nil })
	reg("Yield", func(fr *frame, a []value) value {
		fr.i.sched.yield(fr)
		// database/sql's watcher goroutine rolls a transaction back once its
		// context has ended; it has had its turn by now
		fr.i.sqlSweep(fr)
		return nil
	})
	reg("GoroutinesBlocked", func(fr *frame, a []value) value {
		n := 0
		for _, t := range fr.i.sched.threads[1:] {
			if !t.done {
				n++
			}
		}
		return n
	})
	reg("OpaqueString", func(fr *frame, a []value) value {
		o := fr.i.newOpaque(strArg(a[0]))
		o.n = a[1]
		o.uni, o.c = true, 'x'
		return o
	})
	reg("Held", func(fr *frame, a []value) value {
		// Held(mu *sync.Mutex|*sync.RWMutex) int: 2 write, 1 read, 0 none
		p := a[0].(iface).v.(*value)
		return fr.i.holds(fr.i.sched.thr(fr), p)
	})
}

func f64bits(f float64) uint64 { return math.Float64bits(f) }

var _ = types.Typ
