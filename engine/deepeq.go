package main

// zzverif.DeepEqualIgnoring(a, b any, typeName string) bool — structural
// equality of two Go values (following pointers, slices, maps and interfaces,
// like reflect.DeepEqual) that treats every value whose named type is called
// typeName as equal. Leaves may be symbolic: the result is then a symbolic
// bool (conjunction of the leaf equalities).

import (
	"fmt"
	"go/types"
)

type deepEq struct {
	fr     *frame
	ignore string
	acc    *Term
	seen   map[[2]*value]bool
}

func (d *deepEq) leaf(c value) bool {
	if cb, ok := c.(bool); ok {
		return cb
	}
	d.acc = d.fr.i.ts.And(d.acc, c.(*sym).t)
	return true
}

func (d *deepEq) walk(t types.Type, x, y value, depth int) bool {
	if depth > 400 {
		panic(engineErr{"DeepEqualIgnoring: too deep"})
	}
	if n, ok := t.(*types.Named); ok && n.Obj().Name() == d.ignore {
		return true
	}
	switch ut := t.Underlying().(type) {
	case *types.Basic:
		return d.leaf(eqValue(d.fr, t, x, y))
	case *types.Struct:
		xs, ys := x.(structure), y.(structure)
		for k := 0; k < ut.NumFields(); k++ {
			if !d.walk(ut.Field(k).Type(), xs[k], ys[k], depth+1) {
				return false
			}
		}
		return true
	case *types.Array:
		xs, ys := x.(array), y.(array)
		for k := range xs {
			if !d.walk(ut.Elem(), xs[k], ys[k], depth+1) {
				return false
			}
		}
		return true
	case *types.Pointer:
		xp, _ := x.(*value)
		yp, _ := y.(*value)
		if xp == nil || yp == nil {
			return xp == yp
		}
		if xp == yp {
			return true
		}
		key := [2]*value{xp, yp}
		if d.seen[key] {
			return true
		}
		d.seen[key] = true
		return d.walk(ut.Elem(), *xp, *yp, depth+1)
	case *types.Slice:
		xs, _ := x.([]value)
		ys, _ := y.([]value)
		if (xs == nil) != (ys == nil) || len(xs) != len(ys) {
			return false
		}
		for k := range xs {
			if !d.walk(ut.Elem(), xs[k], ys[k], depth+1) {
				return false
			}
		}
		return true
	case *types.Interface:
		xi, yi := x.(iface), y.(iface)
		if !sameType(xi.t, yi.t) {
			return false
		}
		if xi.t == nil {
			return true
		}
		return d.walk(xi.t, xi.v, yi.v, depth+1)
	case *types.Map:
		xm, _ := x.(*omap)
		ym, _ := y.(*omap)
		if (xm == nil) != (ym == nil) {
			return false
		}
		if xm == nil {
			return true
		}
		if xm.n != ym.n {
			return false
		}
		for _, e := range xm.entries {
			if e.deleted {
				continue
			}
			if hasSym(e.key) {
				panic(engineErr{"DeepEqualIgnoring: symbolic map key"})
			}
			o := ym.find(d.fr, e.key)
			if o == nil {
				return false
			}
			if !d.walk(ut.Elem(), e.val, o.val, depth+1) {
				return false
			}
		}
		return true
	case *types.Signature, *types.Chan:
		return x == nil && y == nil
	}
	panic(engineErr{fmt.Sprintf("UNSUPPORTED DeepEqualIgnoring on %s", t)})
}

func init() {
	externals[zzPkg+"DeepEqualIgnoring"] = func(fr *frame, a []value) value {
		d := &deepEq{fr: fr, ignore: strArg(a[2]), acc: fr.i.ts.tTrue, seen: map[[2]*value]bool{}}
		xi, yi := a[0].(iface), a[1].(iface)
		if !sameType(xi.t, yi.t) {
			return false
		}
		if xi.t == nil {
			return true
		}
		if !d.walk(xi.t, xi.v, yi.v, 0) {
			return false
		}
		return boolVal(d.acc)
	}
}
