package main

// Model of the database/sql plumbing (DB, Tx) for C14 / C13. The engine does
// not run drivers; every operation is forwarded to a hook installed by the
// harness (zzverif.SetSQLHook). The hook — ordinary harness Go code executed
// symbolically — owns the model store (pending / committed writes) and the
// fault decisions. What is modelled here is only what database/sql itself
// guarantees: a Tx is finished by the first Commit or Rollback (later calls
// return ErrTxDone), a transaction whose BeginTx context is cancelled is
// rolled back and its operations fail with the context's error, operations on
// a cancelled context fail without reaching the driver. Natively the same
// hook is driven by a fake database/sql driver in zzverif ("zzfake").

import (
	"go/types"
)

type sqlTxState struct {
	done bool
	ctx  iface
	id   int // 1, 2, ... in order of Begin; zzverif.SQLTx() reports it to the hook
}

// sqlHookTx runs the hook on behalf of transaction st (nil: no transaction).
func (i *interpreter) sqlHookTx(fr *frame, st *sqlTxState, op string, query value, args value) iface {
	id := 0
	if st != nil {
		id = st.id
	}
	i.side["sqlcur"] = id
	return i.sqlHook(fr, op, query, args)
}

func (i *interpreter) sqlHook(fr *frame, op string, query value, args value) iface {
	h := i.side["sqlhook"]
	if h == nil {
		panic(engineErr{"database/sql model used without zzverif.SetSQLHook"})
	}
	if query == nil {
		query = ""
	}
	if args == nil {
		args = []value(nil)
	}
	r := call(i, fr, fr.callpos, h, []value{op, query, args})
	e, _ := r.(iface)
	return e
}

func (i *interpreter) ctxErr(fr *frame, ctx value) iface {
	c, ok := ctx.(iface)
	if !ok || c.t == nil {
		return iface{}
	}
	m := i.findMethod(c.t, "Err")
	if m == nil {
		panic(engineErr{"context value without Err method"})
	}
	r := call(i, fr, fr.callpos, m, []value{c.v})
	e, _ := r.(iface)
	return e
}

func (i *interpreter) sqlTx(p *value) *sqlTxState {
	tab, _ := i.side["sqltx"].(map[*value]*sqlTxState)
	if tab == nil {
		tab = map[*value]*sqlTxState{}
		i.side["sqltx"] = tab
	}
	st := tab[p]
	if st == nil {
		n, _ := i.side["sqltxn"].(int)
		n++
		i.side["sqltxn"] = n
		st = &sqlTxState{id: n}
		tab[p] = st
	}
	return st
}

func (i *interpreter) sqlResult() value {
	t := i.namedType(modPath+"/internal/zzverif", "SQLResult")
	return iface{t: t, v: zero(t)}
}

func (i *interpreter) errTxDone() iface {
	return i.newError("sql: transaction has already been committed or rolled back", nil).(iface)
}

// txLive checks the state every Tx operation checks first. It returns a
// non-nil error interface when the operation must fail.
func (i *interpreter) txLive(fr *frame, p *value) iface {
	st := i.sqlTx(p)
	if st.done {
		return i.errTxDone()
	}
	if e := i.ctxErr(fr, st.ctx); e.t != nil {
		// database/sql rolls a transaction back when its context ends
		st.done = true
		i.sqlHookTx(fr, st, "rollback", nil, nil)
		return e
	}
	return iface{}
}

// sqlSweep rolls back every live transaction whose context has ended (what
// database/sql's per-transaction watcher goroutine does asynchronously).
func (i *interpreter) sqlSweep(fr *frame) {
	tab, _ := i.side["sqltx"].(map[*value]*sqlTxState)
	for _, st := range tab {
		if st.done {
			continue
		}
		if e := i.ctxErr(fr, st.ctx); e.t != nil {
			st.done = true
			i.sqlHookTx(fr, st, "rollback", nil, nil)
		}
	}
}

func init() {
	externals[zzPkg+"SetSQLHook"] = func(fr *frame, a []value) value {
		fr.i.side["sqlhook"] = a[0]
		return nil
	}
	newDB := func(fr *frame) value {
		t := fr.i.namedType("database/sql", "DB")
		var cell value = zero(t)
		return &cell
	}
	externals["database/sql.Open"] = func(fr *frame, a []value) value {
		return tuple{newDB(fr), iface{}}
	}
	externals["database/sql.Register"] = nop
	externals["(*database/sql.DB).Close"] = func(fr *frame, a []value) value { return iface{} }
	externals["(*database/sql.DB).Ping"] = func(fr *frame, a []value) value { return iface{} }
	externals["(*database/sql.DB).PingContext"] = func(fr *frame, a []value) value { return iface{} }
	externals["(*database/sql.DB).SetMaxOpenConns"] = nop
	externals["(*database/sql.DB).SetMaxIdleConns"] = nop
	externals["(*database/sql.DB).SetConnMaxLifetime"] = nop
	externals["(*database/sql.DB).SetConnMaxIdleTime"] = nop

	beginTx := func(fr *frame, ctx value) value {
		i := fr.i
		if e := i.ctxErr(fr, ctx); e.t != nil {
			return tuple{(*value)(nil), e}
		}
		t := i.namedType("database/sql", "Tx")
		var cell value = zero(t)
		p := &cell
		st := i.sqlTx(p)
		if e := i.sqlHookTx(fr, st, "begin", nil, nil); e.t != nil {
			st.done = true
			return tuple{(*value)(nil), e}
		}
		if c, ok := ctx.(iface); ok {
			st.ctx = c
		}
		return tuple{p, iface{}}
	}
	externals["(*database/sql.DB).BeginTx"] = func(fr *frame, a []value) value { return beginTx(fr, a[1]) }
	externals["(*database/sql.DB).Begin"] = func(fr *frame, a []value) value { return beginTx(fr, nil) }

	dbExec := func(fr *frame, ctx, q, args value) value {
		i := fr.i
		if e := i.ctxErr(fr, ctx); e.t != nil {
			return tuple{iface{}, e}
		}
		if e := i.sqlHookTx(fr, nil, "exec", q, args); e.t != nil {
			return tuple{iface{}, e}
		}
		return tuple{i.sqlResult(), iface{}}
	}
	externals["(*database/sql.DB).ExecContext"] = func(fr *frame, a []value) value { return dbExec(fr, a[1], a[2], a[3]) }
	externals["(*database/sql.DB).Exec"] = func(fr *frame, a []value) value { return dbExec(fr, nil, a[1], a[2]) }

	txExec := func(fr *frame, p *value, ctx, q, args value) value {
		i := fr.i
		if p == nil {
			panic(runtimeErr{"invalid memory address or nil pointer dereference"})
		}
		if e := i.txLive(fr, p); e.t != nil {
			return tuple{iface{}, e}
		}
		if e := i.ctxErr(fr, ctx); e.t != nil {
			return tuple{iface{}, e}
		}
		if e := i.sqlHookTx(fr, i.sqlTx(p), "tx.exec", q, args); e.t != nil {
			return tuple{iface{}, e}
		}
		return tuple{i.sqlResult(), iface{}}
	}
	externals["(*database/sql.Tx).ExecContext"] = func(fr *frame, a []value) value {
		return txExec(fr, a[0].(*value), a[1], a[2], a[3])
	}
	externals["(*database/sql.Tx).Exec"] = func(fr *frame, a []value) value {
		return txExec(fr, a[0].(*value), nil, a[1], a[2])
	}
	externals["(*database/sql.Tx).Commit"] = func(fr *frame, a []value) value {
		i := fr.i
		p := a[0].(*value)
		if p == nil {
			panic(runtimeErr{"invalid memory address or nil pointer dereference"})
		}
		if e := i.txLive(fr, p); e.t != nil {
			return e
		}
		i.sqlTx(p).done = true
		return i.sqlHookTx(fr, i.sqlTx(p), "commit", nil, nil)
	}
	externals["(*database/sql.Tx).Rollback"] = func(fr *frame, a []value) value {
		i := fr.i
		p := a[0].(*value)
		if p == nil {
			panic(runtimeErr{"invalid memory address or nil pointer dereference"})
		}
		st := i.sqlTx(p)
		if st.done {
			return i.errTxDone()
		}
		st.done = true
		return i.sqlHookTx(fr, st, "rollback", nil, nil)
	}
	externals[zzPkg+"SQLTx"] = func(fr *frame, a []value) value {
		n, _ := fr.i.side["sqlcur"].(int)
		return n
	}
}

var _ = types.Typ
