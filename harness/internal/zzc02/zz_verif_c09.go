package zzc02

// C09-O4 — a compiled async block with control flow inside takes the jumps its
// source dictates (the body is embedded in the instruction stream and run at
// base 0 by a snapshot VM): interpreter and VM must agree for every condition
// value. Sequential per schedule; the schedule is explored with the delay bound.

import (
	"github.com/glyphlang/glyph/internal/zzverif"
	"github.com/glyphlang/glyph/pkg/ast"
	"github.com/glyphlang/glyph/pkg/compiler"
)

func c9int(v int64) ast.Expr  { return ast.LiteralExpr{Value: ast.IntLiteral{Value: v}} }
func c9var(n string) ast.Expr { return ast.VariableExpr{Name: n} }
func c9let(n string, e ast.Expr) ast.Statement {
	return ast.AssignStatement{Target: n, Value: e}
}

func c9Compare(shape string, r *ast.Route) {
	iv := runInterpreted(r)
	for _, lvl := range []compiler.OptimizationLevel{compiler.OptNone, compiler.OptBasic} {
		cv, ok := runCompiled(r, lvl)
		if !ok {
			zzverif.Fail(shape + " compiler rejected the program")
			return
		}
		compare(shape, iv, cv)
	}
	zzverif.Reach("c9")
}

// async { if c { > x } > y }
func VerifC09_CompiledAsyncIf() {
	c := zzverif.Bool("c")
	x, y := zzverif.Int64("x"), zzverif.Int64("y")
	c9Compare("compiled-async-if", routeOf(
		c9let("c", ast.LiteralExpr{Value: ast.BoolLiteral{Value: c}}),
		c9let("f", ast.AsyncExpr{Body: []ast.Statement{
			ast.IfStatement{Condition: c9var("c"), ThenBlock: []ast.Statement{ret(c9int(x))}},
			ret(c9int(y)),
		}}),
		ret(ast.AwaitExpr{Expr: c9var("f")}),
	))
}

// async { if c { $ t = x } else { $ t = y }  > t + 1 } after a few parent statements
func VerifC09_CompiledAsyncIfElse() {
	c := zzverif.Bool("c")
	x, y := zzverif.Int64("x"), zzverif.Int64("y")
	c9Compare("compiled-async-if-else", routeOf(
		c9let("c", ast.LiteralExpr{Value: ast.BoolLiteral{Value: c}}),
		c9let("p", c9int(3)),
		c9let("q", ast.BinaryOpExpr{Op: ast.Add, Left: c9var("p"), Right: c9int(1)}),
		c9let("f", ast.AsyncExpr{Body: []ast.Statement{
			c9let("t", c9int(0)),
			ast.IfStatement{Condition: c9var("c"),
				ThenBlock: []ast.Statement{ast.ReassignStatement{Target: "t", Value: c9int(x)}},
				ElseBlock: []ast.Statement{ast.ReassignStatement{Target: "t", Value: c9int(y)}}},
			ret(ast.BinaryOpExpr{Op: ast.Add, Left: c9var("t"), Right: c9var("q")}),
		}}),
		ret(ast.AwaitExpr{Expr: c9var("f")}),
	))
}

// async { $ i = 0  while i < n { i = i + 1 }  > i }   n in 0..3
func VerifC09_CompiledAsyncWhile() {
	n := int64(zzverif.IntRange("n", 0, 3))
	c9Compare("compiled-async-while", routeOf(
		c9let("f", ast.AsyncExpr{Body: []ast.Statement{
			c9let("i", c9int(0)),
			ast.WhileStatement{Condition: ast.BinaryOpExpr{Op: ast.Lt, Left: c9var("i"), Right: c9int(n)},
				Body: []ast.Statement{ast.ReassignStatement{Target: "i", Value: ast.BinaryOpExpr{Op: ast.Add, Left: c9var("i"), Right: c9int(1)}}}},
			ret(c9var("i")),
		}}),
		ret(ast.AwaitExpr{Expr: c9var("f")}),
	))
}

// two awaits of one future and a block started inside a branch
func VerifC09_CompiledAsyncTwice() {
	c := zzverif.Bool("c")
	x := zzverif.Int64("x")
	c9Compare("compiled-async-twice", routeOf(
		c9let("c", ast.LiteralExpr{Value: ast.BoolLiteral{Value: c}}),
		c9let("f", ast.AsyncExpr{Body: []ast.Statement{ret(c9int(x))}}),
		c9let("a", ast.AwaitExpr{Expr: c9var("f")}),
		c9let("b", ast.AwaitExpr{Expr: c9var("f")}),
		ast.IfStatement{Condition: c9var("c"), ThenBlock: []ast.Statement{ret(ast.BinaryOpExpr{Op: ast.Add, Left: c9var("a"), Right: c9var("b")})}},
		ret(c9var("a")),
	))
}

// the parent keeps declaring and assigning while the compiled block runs
func VerifC09_CompiledAsyncParentAssigns() {
	a, b := zzverif.Int64("a"), zzverif.Int64("b")
	c9Compare("compiled-async-parent-assigns", routeOf(
		c9let("a", c9int(a)),
		c9let("x", c9int(0)),
		c9let("f", ast.AsyncExpr{Body: []ast.Statement{ret(ast.BinaryOpExpr{Op: ast.Add, Left: c9var("a"), Right: c9int(1)})}}),
		ast.ReassignStatement{Target: "x", Value: c9int(b)},
		c9let("y", ast.BinaryOpExpr{Op: ast.Add, Left: c9var("x"), Right: c9int(2)}),
		ret(ast.AwaitExpr{Expr: c9var("f")}),
	))
}

// two blocks, each declaring a local of the same name
func VerifC09_CompiledAsyncTwoBlocks() {
	a, b := zzverif.Int64("a"), zzverif.Int64("b")
	c9Compare("compiled-async-two-blocks", routeOf(
		c9let("f", ast.AsyncExpr{Body: []ast.Statement{c9let("t", c9int(a)), ret(c9var("t"))}}),
		c9let("g", ast.AsyncExpr{Body: []ast.Statement{c9let("t", c9int(b)), ret(c9var("t"))}}),
		c9let("x", ast.AwaitExpr{Expr: c9var("f")}),
		c9let("y", ast.AwaitExpr{Expr: c9var("g")}),
		ret(ast.BinaryOpExpr{Op: ast.Sub, Left: c9var("x"), Right: c9var("y")}),
	))
}
