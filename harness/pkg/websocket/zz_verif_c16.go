package websocket

// C16 — WebSocket rooms stay consistent. Sequential histories of hub and
// connection operations against a model of membership (O1), and two actors
// racing through the real hub loop under schedule exploration (O2).

import (
	"sync/atomic"
	"net/http"
	"net/http/httptest"
	"strings"

	gws "github.com/gorilla/websocket"

	"github.com/glyphlang/glyph/internal/zzverif"
)

// zzSocket: under the engine connections carry no socket (gorilla's Conn
// methods are modelled as no-ops that accept a nil receiver); natively a real
// server-side *websocket.Conn over a loopback test server is used.
func zzSocket() *gws.Conn {
	if zzverif.Symbolic() {
		return nil
	}
	ch := make(chan *gws.Conn, 1)
	up := gws.Upgrader{CheckOrigin: func(*http.Request) bool { return true }}
	srv := httptest.NewServer(http.HandlerFunc(func(w http.ResponseWriter, r *http.Request) {
		c, err := up.Upgrade(w, r, nil)
		if err != nil {
			ch <- nil
			return
		}
		ch <- c
	}))
	zzServers = append(zzServers, srv)
	_, _, err := gws.DefaultDialer.Dial("ws"+strings.TrimPrefix(srv.URL, "http"), nil)
	if err != nil {
		panic(err)
	}
	return <-ch
}

var zzServers []*httptest.Server

func zzCleanup() {
	for _, s := range zzServers {
		s.CloseClientConnections()
		s.Close()
	}
	zzServers = nil
}

var zzRooms = []string{"r", "s"}

type zzWorld struct {
	hub   *Hub
	conns []*Connection
	// model
	reg    []bool            // registered with the hub
	member []map[string]bool // member[c][room]
	closed []bool            // send channel closed (dropped / unregistered)
	maxRoom, maxHub int
}

func zzNewWorld(nconns int) *zzWorld {
	cfg := DefaultConfig()
	cfg.MaxConnectionsPerRoom = zzverif.Choice("maxRoom", 3) // 0 = unlimited, 1, 2
	cfg.MaxConnectionsPerHub = 1 + zzverif.Choice("maxHub", 2)
	cfg.MessageQueueSize = 1 + zzverif.Choice("queue", 2)
	cfg.MessageQueueStrategy = []QueueStrategy{QueueStrategyDropOldest, QueueStrategyDropNewest}[zzverif.Choice("strategy", 2)]
	cfg.EnableReconnection = false
	w := &zzWorld{hub: NewHubWithConfig(cfg), maxRoom: cfg.MaxConnectionsPerRoom, maxHub: cfg.MaxConnectionsPerHub}
	go w.hub.Run()
	<-w.hub.started
	for k := 0; k < nconns; k++ {
		w.conns = append(w.conns, NewConnection(string(rune('a'+k)), zzSocket(), w.hub))
		w.reg = append(w.reg, false)
		w.closed = append(w.closed, false)
		w.member = append(w.member, map[string]bool{})
	}
	return w
}

func (w *zzWorld) stop() {
	close(w.hub.shutdown)
	zzverif.Yield()
	zzCleanup()
}

func (w *zzWorld) roomSize(room string) int {
	n := 0
	for k := range w.conns {
		if w.member[k][room] {
			n++
		}
	}
	return n
}

func (w *zzWorld) regCount() int {
	n := 0
	for _, r := range w.reg {
		if r {
			n++
		}
	}
	return n
}

// drain empties conn k's outbound queue and returns what was in it.
func (w *zzWorld) drain(k int) (msgs []string, closed bool) {
	for {
		select {
		case m, ok := <-w.conns[k].send:
			if !ok {
				return msgs, true
			}
			msgs = append(msgs, string(m))
		default:
			return msgs, false
		}
	}
}

// check compares the real structures with the model.
func (w *zzWorld) check(after string) {
	rm := w.hub.GetRoomManager()
	for _, room := range zzRooms {
		r, exists := rm.GetRoom(room)
		size := 0
		for k, c := range w.conns {
			has := exists && r.Has(c)
			zzverif.Assert(has == w.member[k][room], "after "+after+": room membership differs from the history")
			zzverif.Assert(c.IsInRoom(room) == has, "after "+after+": connection's own view of its rooms differs from the room's membership")
			if has {
				size++
				zzverif.Assert(!w.closed[k], "after "+after+": a disconnected connection is still in a room")
			}
		}
		if exists {
			zzverif.Assert(r.Size() == size, "after "+after+": room holds an unknown connection")
			zzverif.Assert(w.maxRoom == 0 || r.Size() <= w.maxRoom, "after "+after+": room size limit exceeded")
		}
	}
	zzverif.Assert(w.hub.GetConnectionCount() == w.regCount(), "after "+after+": hub's registered connections differ from the history")
	zzverif.Assert(w.hub.GetConnectionCount() <= w.maxHub, "after "+after+": hub connection limit exceeded")
}

// step performs one operation of the history and updates the model.
func (w *zzWorld) step() {
	op := zzverif.Choice("op", 7)
	k := zzverif.Choice("conn", len(w.conns))
	room := zzRooms[zzverif.Choice("room", len(zzRooms))]
	c := w.conns[k]
	name := ""
	switch op {
	case 0:
		name = "register"
		if w.reg[k] || w.closed[k] {
			return // a connection registers once
		}
		w.hub.register <- c
		zzverif.Yield()
		if w.regCount() < w.maxHub {
			w.reg[k] = true
		} else {
			w.closed[k] = true // rejected: its socket is closed, it never becomes a member of anything
		}
	case 1:
		name = "unregister"
		w.hub.unregister <- c
		zzverif.Yield()
		if w.reg[k] {
			w.reg[k] = false
			w.closed[k] = true
			w.member[k] = map[string]bool{}
		}
	case 2:
		name = "join"
		if !w.reg[k] {
			return // joins come from a registered connection's handlers
		}
		c.JoinRoom(room)
		if !w.member[k][room] && (w.maxRoom == 0 || w.roomSize(room) < w.maxRoom) {
			w.member[k][room] = true
		}
	case 3:
		name = "leave"
		c.LeaveRoom(room)
		delete(w.member[k], room)
	case 4:
		name = "room-broadcast"
		for j := range w.conns {
			if !w.closed[j] {
				w.drain(j)
			}
		}
		w.hub.BroadcastToRoom(room, []byte("m"), nil)
		zzverif.Yield()
		for j := range w.conns {
			if w.closed[j] {
				continue
			}
			msgs, _ := w.drain(j)
			if w.member[j][room] {
				zzverif.Assert(len(msgs) == 1 && msgs[0] == "m", "room message not delivered to a member with queue space")
			} else {
				zzverif.Assert(len(msgs) == 0, "room message delivered to a connection that is not a member of the room")
			}
		}
	case 5:
		name = "hub-broadcast"
		full := make([]bool, len(w.conns))
		for j, cj := range w.conns {
			full[j] = w.reg[j] && len(cj.send) == cap(cj.send)
			if !w.reg[j] && !w.closed[j] {
				w.drain(j) // forget direct sends queued earlier
			}
		}
		w.hub.Broadcast([]byte("b"))
		zzverif.Yield()
		for j := range w.conns {
			if w.reg[j] && full[j] {
				// a registered connection whose queue is full is dropped
				w.reg[j], w.closed[j], w.member[j] = false, true, map[string]bool{}
			}
		}
		for j := range w.conns {
			if !w.reg[j] && !w.closed[j] {
				msgs, _ := w.drain(j)
				zzverif.Assert(len(msgs) == 0, "hub broadcast delivered to a connection that is not registered")
			}
		}
	case 6:
		name = "send"
		if w.closed[k] {
			return
		}
		c.Send([]byte("d"))
	}
	w.check(name)
}

func zzHistory(n int) {
	zzverif.Obligation("hub operations return")
	w := zzNewWorld(2)
	// both connections connect first (the second one is turned away when the hub limit is 1)
	for k, c := range w.conns {
		w.hub.register <- c
		zzverif.Yield()
		if w.regCount() < w.maxHub {
			w.reg[k] = true
		} else {
			w.closed[k] = true
		}
	}
	w.check("connect")
	for s := 0; s < n; s++ {
		w.step()
	}
	w.stop()
	zzverif.Reach("history")
}

func VerifC16_History2() { zzHistory(2) }
func VerifC16_History3() { zzHistory(3) }
func VerifC16_History4() { zzHistory(4) }

// ---------------------------------------------------------------------------
// O2: two actors race through the real hub loop: a handler goroutine joining a
// room while the connection is being disconnected, then a room message.

func zzJoinRacesDisconnect(checkViews bool) {
	zzverif.Obligation("hub operations return")
	cfg := DefaultConfig()
	cfg.MessageQueueSize = 1
	cfg.EnableReconnection = false
	hub := NewHubWithConfig(cfg)
	go hub.Run()
	<-hub.started
	c1 := NewConnection("a", zzSocket(), hub)
	c2 := NewConnection("b", zzSocket(), hub)
	hub.register <- c1
	hub.register <- c2
	c2.JoinRoom("r")
	done := make(chan struct{}, 2)
	go func() { zzverif.Perturb(); c1.JoinRoom("r"); done <- struct{}{} }()
	go func() { zzverif.Perturb(); hub.unregister <- c1; done <- struct{}{} }()
	<-done
	<-done
	zzverif.Yield()
	// a room message after the dust has settled must not crash the hub
	hub.BroadcastToRoom("r", []byte("m"), nil)
	zzverif.Yield()
	if checkViews {
		r, _ := hub.GetRoomManager().GetRoom("r")
		zzverif.Assert(!(r != nil && r.Has(c1)), "a disconnected connection is a member of a room at quiescence")
		zzverif.Assert(!c1.IsInRoom("r") || (r != nil && r.Has(c1)), "connection's own view lists a room it is not a member of at quiescence")
	}
	close(hub.shutdown)
	zzverif.Yield()
	zzCleanup()
	zzverif.Reach("race")
}

// no crash / no deadlock only (a crash in the hub goroutine is the violation)
func VerifC16_JoinRacesDisconnectNoCrash() { zzJoinRacesDisconnect(false) }

// membership views at quiescence
func VerifC16_JoinRacesDisconnectViews() { zzJoinRacesDisconnect(true) }

// two connections race for the last slot of a room
func VerifC16_JoinRace() {
	zzverif.Obligation("hub operations return")
	cfg := DefaultConfig()
	cfg.MaxConnectionsPerRoom = 1
	cfg.EnableReconnection = false
	hub := NewHubWithConfig(cfg)
	go hub.Run()
	<-hub.started
	c1 := NewConnection("a", zzSocket(), hub)
	c2 := NewConnection("b", zzSocket(), hub)
	hub.register <- c1
	hub.register <- c2
	done := make(chan struct{}, 2)
	go func() { zzverif.Perturb(); c1.JoinRoom("r"); done <- struct{}{} }()
	go func() { zzverif.Perturb(); c2.JoinRoom("r"); done <- struct{}{} }()
	<-done
	<-done
	r, _ := hub.GetRoomManager().GetRoom("r")
	zzverif.Assert(r != nil && r.Size() == 1, "room size limit exceeded or room empty after two racing joins")
	zzverif.Assert(c1.IsInRoom("r") == r.Has(c1) && c2.IsInRoom("r") == r.Has(c2), "connection's own view differs from the room's membership after racing joins")
	close(hub.shutdown)
	zzverif.Yield()
	zzCleanup()
	zzverif.Reach("joinrace")
}

func VerifC16_Twin() {
	w := zzNewWorld(2)
	w.hub.register <- w.conns[0]
	zzverif.Yield()
	w.conns[0].JoinRoom("r")
	r, _ := w.hub.GetRoomManager().GetRoom("r")
	zzverif.Assert(r == nil || !r.Has(w.conns[0]), "twin")
	w.stop()
	zzverif.Reach("twin")
}

// ---------------------------------------------------------------------------
// operations issued from message handlers (which run inside the hub loop)

// zzHandlerOp: a message handler performs one ws.* operation through the real
// VMHandler adapter; afterwards the hub must still answer.
func zzHandlerOp() {
	zzverif.Obligation("hub keeps serving after a handler operation")
	cfg := DefaultConfig()
	cfg.MessageQueueSize = 2
	cfg.EnableReconnection = false
	hub := NewHubWithConfig(cfg)
	op := zzverif.Choice("op", 6)
	names := []string{"send", "broadcast", "broadcast_to_room", "join", "leave", "close"}
	hub.OnMessage(MessageTypeText, func(ctx *MessageContext) error {
		h := NewVMHandler(ctx.Conn, hub)
		switch op {
		case 0:
			return h.Send("x")
		case 1:
			return h.Broadcast("x")
		case 2:
			return h.BroadcastToRoom("r", "x")
		case 3:
			return h.JoinRoom("s")
		case 4:
			return h.LeaveRoom("r")
		}
		return h.Close("")
	})
	go hub.Run()
	<-hub.started
	c1 := NewConnection("a", zzSocket(), hub)
	c2 := NewConnection("b", zzSocket(), hub)
	hub.register <- c1
	hub.register <- c2
	c1.JoinRoom("r")
	c2.JoinRoom("r")
	hub.handleMessage <- &MessageContext{Conn: c1, Message: &Message{Type: MessageTypeText, Data: "hi"}}
	zzverif.Yield()
	// the hub still serves: a later registration is processed
	c3 := NewConnection("c", zzSocket(), hub)
	hub.register <- c3
	zzverif.Yield()
	zzverif.Assert(hub.GetConnectionCount() >= 2, "hub lost connections after a handler ran ws."+names[op])
	if op == 5 {
		r, _ := hub.GetRoomManager().GetRoom("r")
		zzverif.Assert(r != nil && !r.Has(c1) && !c1.IsInRoom("r"), "connection closed from its handler is still in a room")
	}
	close(hub.shutdown)
	zzverif.Yield()
	zzCleanup()
	zzverif.Reach("handler")
}

func VerifC16_HandlerOps() { zzHandlerOp() }

// hub-wide broadcast drops a slow consumer while it is joining a room
func VerifC16_DropRacesJoin() {
	zzverif.Obligation("hub operations return")
	cfg := DefaultConfig()
	cfg.MessageQueueSize = 1
	cfg.EnableReconnection = false
	hub := NewHubWithConfig(cfg)
	go hub.Run()
	<-hub.started
	c1 := NewConnection("a", zzSocket(), hub)
	c2 := NewConnection("b", zzSocket(), hub)
	hub.register <- c1
	hub.register <- c2
	c2.JoinRoom("r")
	c1.Send([]byte("fill")) // c1's queue is full now: the next hub broadcast drops it
	done := make(chan struct{}, 2)
	go func() { zzverif.Perturb(); c1.JoinRoom("r"); done <- struct{}{} }()
	go func() { zzverif.Perturb(); hub.Broadcast([]byte("b")); done <- struct{}{} }()
	<-done
	<-done
	zzverif.Yield()
	hub.BroadcastToRoom("r", []byte("m"), nil)
	zzverif.Yield()
	r, _ := hub.GetRoomManager().GetRoom("r")
	zzverif.Assert(r != nil && !r.Has(c1), "a dropped connection is a member of a room at quiescence")
	zzverif.Assert(!c1.IsInRoom("r"), "a dropped connection's own view still lists a room")
	close(hub.shutdown)
	zzverif.Yield()
	zzCleanup()
	zzverif.Reach("drop")
}

// a slow consumer (full queue) is dropped by a hub-wide broadcast: afterwards it
// is in no room, its own view is empty, and room messages do not touch it
func VerifC16_SlowConsumerDropped() {
	zzverif.Obligation("hub operations return")
	cfg := DefaultConfig()
	cfg.MessageQueueSize = 1 + zzverif.Choice("queue", 2)
	cfg.MessageQueueStrategy = []QueueStrategy{QueueStrategyDropOldest, QueueStrategyDropNewest}[zzverif.Choice("strategy", 2)]
	cfg.EnableReconnection = false
	hub := NewHubWithConfig(cfg)
	go hub.Run()
	<-hub.started
	c1 := NewConnection("a", zzSocket(), hub)
	c2 := NewConnection("b", zzSocket(), hub)
	hub.register <- c1
	hub.register <- c2
	c1.JoinRoom("r")
	c2.JoinRoom("r")
	if zzverif.Bool("secondRoom") {
		c1.JoinRoom("s")
	}
	for k := 0; k < cfg.MessageQueueSize; k++ {
		c1.send <- []byte("fill") // nobody drains c1: its queue is full now
	}
	hub.Broadcast([]byte("b"))
	zzverif.Yield()
	zzverif.Assert(hub.GetConnectionCount() == 1, "slow consumer not dropped by the hub-wide broadcast")
	for _, room := range []string{"r", "s"} {
		r, ok := hub.GetRoomManager().GetRoom(room)
		zzverif.Assert(!ok || !r.Has(c1), "a dropped connection is still a member of a room")
		zzverif.Assert(!c1.IsInRoom(room), "a dropped connection's own view still lists a room")
	}
	// messages to its former rooms must not crash the hub and reach only the other member
	for len(c2.send) > 0 {
		<-c2.send
	}
	hub.BroadcastToRoom("r", []byte("m"), nil)
	hub.BroadcastToRoom("s", []byte("m"), nil)
	zzverif.Yield()
	zzverif.Assert(len(c2.send) == 1, "room message after the drop not delivered to the remaining member exactly once")
	close(hub.shutdown)
	zzverif.Yield()
	zzCleanup()
	zzverif.Reach("dropped")
}

// a room broadcast issued directly (an HTTP route calling the room manager) while
// a member leaves the room or is disconnected: no crash, and a message never
// reaches a connection after LeaveRoom has returned for it
func VerifC16_BroadcastRacesLeave() {
	zzverif.Obligation("hub operations return")
	cfg := DefaultConfig()
	cfg.MessageQueueSize = 4
	cfg.EnableReconnection = false
	hub := NewHubWithConfig(cfg)
	go hub.Run()
	<-hub.started
	c2 := NewConnection("b", zzSocket(), hub)
	hub.register <- c2
	c2.JoinRoom("r")
	disconnect := zzverif.Bool("the member is disconnected (not just leaving)")
	// natively the race is run many times (the window is a few instructions wide);
	// under the engine once, over every schedule within the delay bound
	rounds := 1
	if !zzverif.Symbolic() {
		rounds = 300
	}
	var c1 *Connection
	for round := 0; round < rounds; round++ {
		if c1 == nil || disconnect {
			c1 = NewConnection("a", zzSocket(), hub)
			hub.register <- c1
		}
		c1.JoinRoom("r")
		for len(c2.send) > 0 {
			<-c2.send
		}
		for len(c1.send) > 0 {
			<-c1.send
		}
		var left int32
		done := make(chan struct{}, 2)
		conn := c1
		go func() {
			zzverif.Perturb()
			hub.GetRoomManager().BroadcastToRoom("r", []byte("m"), nil)
			done <- struct{}{}
		}()
		go func() {
			zzverif.Perturb()
			if disconnect {
				hub.unregister <- conn
			} else {
				conn.LeaveRoom("r")
				// what is queued when LeaveRoom returns is all there will ever be
				atomic.StoreInt32(&left, int32(len(conn.send))+1)
			}
			done <- struct{}{}
		}()
		<-done
		<-done
		zzverif.Yield()
		if !disconnect {
			n := atomic.LoadInt32(&left)
			zzverif.Assert(!(n > 0 && int32(len(c1.send)) > n-1), "a room message reached a connection after LeaveRoom had returned for it")
		}
	}
	close(hub.shutdown)
	zzverif.Yield()
	zzCleanup()
	zzverif.Reach("broadcast-leave")
}

// one connection joins and leaves the same room from two goroutines (a handler
// and an HTTP route): afterwards its own view and the room's membership agree
func VerifC16_JoinRacesLeave() {
	zzverif.Obligation("hub operations return")
	cfg := DefaultConfig()
	cfg.EnableReconnection = false
	hub := NewHubWithConfig(cfg)
	go hub.Run()
	<-hub.started
	c1 := NewConnection("a", zzSocket(), hub)
	hub.register <- c1
	if zzverif.Bool("member at the start") {
		c1.JoinRoom("r")
	}
	done := make(chan struct{}, 2)
	go func() { zzverif.Perturb(); c1.JoinRoom("r"); done <- struct{}{} }()
	go func() { zzverif.Perturb(); c1.LeaveRoom("r"); done <- struct{}{} }()
	<-done
	<-done
	r, _ := hub.GetRoomManager().GetRoom("r")
	inRoom := r != nil && r.Has(c1)
	zzverif.Assert(c1.IsInRoom("r") == inRoom, "connection's own view differs from the room's membership after a join racing a leave")
	close(hub.shutdown)
	zzverif.Yield()
	zzCleanup()
	zzverif.Reach("join-leave")
}
