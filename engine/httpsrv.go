package main

// Models of net/http.ServeMux (exact and subtree patterns only) and of
// http.Server.ListenAndServe / Shutdown (a "listening" flag per server object
// and per address). Used by the C19 dev-server harness.

import (
	"fmt"
	"go/types"
	"strings"
)

type muxEntry struct {
	pattern string
	fn      value // func value, or iface (http.Handler)
}

type srvState struct {
	ptr   *value
	addr  string
	state int // 1 listening, 2 closed
}

func (i *interpreter) muxTable() map[*value][]muxEntry {
	t, _ := i.side["mux"].(map[*value][]muxEntry)
	if t == nil {
		t = map[*value][]muxEntry{}
		i.side["mux"] = t
	}
	return t
}

func (i *interpreter) srvTable() *[]*srvState {
	t, _ := i.side["srv"].(*[]*srvState)
	if t == nil {
		t = &[]*srvState{}
		i.side["srv"] = t
	}
	return t
}

func (i *interpreter) srvOf(p *value, create bool) *srvState {
	t := i.srvTable()
	for _, s := range *t {
		if s.ptr == p {
			return s
		}
	}
	if !create {
		return nil
	}
	st := (*p).(structure)
	addr, ok := (*structField(st, i.namedType("net/http", "Server"), "Addr")).(string)
	if !ok {
		panic(engineErr{"UNSUPPORTED http.Server with a symbolic Addr"})
	}
	s := &srvState{ptr: p, addr: addr}
	*t = append(*t, s)
	return s
}

func init() {
	muxReg := func(fr *frame, a []value) value {
		i := fr.i
		mux := a[0].(*value)
		pat, ok := a[1].(string)
		if !ok || strings.ContainsAny(pat, "{ ") || pat == "" {
			panic(engineErr{fmt.Sprintf("UNSUPPORTED ServeMux pattern %v (model handles exact and subtree paths only)", a[1])})
		}
		t := i.muxTable()
		for _, e := range t[mux] {
			if e.pattern == pat {
				panic(targetPanic{iface{i.runtimeErrorString, "http: multiple registrations for " + pat}})
			}
		}
		t[mux] = append(t[mux], muxEntry{pat, a[2]})
		return nil
	}
	externals["net/http.NewServeMux"] = func(fr *frame, a []value) value {
		v := zero(fr.i.namedType("net/http", "ServeMux"))
		return &v
	}
	externals["(*net/http.ServeMux).HandleFunc"] = muxReg
	externals["(*net/http.ServeMux).Handle"] = muxReg
	externals["(*net/http.ServeMux).ServeHTTP"] = func(fr *frame, a []value) value {
		i := fr.i
		mux := a[0].(*value)
		w := a[1].(iface)
		rp := a[2].(*value)
		rt := i.namedType("net/http", "Request")
		up, _ := (*structField((*rp).(structure), rt, "URL")).(*value)
		if up == nil {
			panic(engineErr{"ServeMux model: request without URL"})
		}
		path, ok := (*structField((*up).(structure), i.namedType("net/url", "URL"), "Path")).(string)
		if !ok {
			panic(engineErr{"UNSUPPORTED ServeMux dispatch on a symbolic path"})
		}
		var best *muxEntry
		es := i.muxTable()[mux]
		for k := range es {
			e := &es[k]
			if e.pattern == path || strings.HasSuffix(e.pattern, "/") && strings.HasPrefix(path, e.pattern) {
				if best == nil || len(e.pattern) > len(best.pattern) {
					best = e
				}
			}
		}
		if best == nil {
			if m := i.findMethod(w.t, "WriteHeader"); m != nil {
				call(i, fr, fr.callpos, m, []value{w.v, 404})
			}
			return nil
		}
		if h, ok := best.fn.(iface); ok {
			m := i.findMethod(h.t, "ServeHTTP")
			if m == nil {
				panic(engineErr{"ServeMux model: handler without ServeHTTP"})
			}
			call(i, fr, fr.callpos, m, []value{h.v, w, rp})
			return nil
		}
		call(i, fr, fr.callpos, best.fn, []value{w, rp})
		return nil
	}

	externals["(*net/http.Server).ListenAndServe"] = func(fr *frame, a []value) value {
		i := fr.i
		s := i.srvOf(a[0].(*value), true)
		if s.state == 2 {
			return iface{} // http.ErrServerClosed (modelled as the zero error value of the skipped net/http init)
		}
		for _, o := range *i.srvTable() {
			if o != s && o.state == 1 && o.addr == s.addr {
				return i.newError("listen tcp "+s.addr+": bind: address already in use", nil)
			}
		}
		s.state = 1
		i.sched.block(fr, func() bool { return s.state != 1 }, "http.Server.ListenAndServe")
		return iface{}
	}
	externals["(*net/http.Server).Shutdown"] = func(fr *frame, a []value) value {
		s := fr.i.srvOf(a[0].(*value), true)
		s.state = 2
		return iface{}
	}
	externals["(*net/http.Server).Close"] = externals["(*net/http.Server).Shutdown"]
	// zzverif.ListeningServer(addr string) any: the *http.Server listening on addr, or nil
	externals[zzPkg+"ListeningServer"] = func(fr *frame, a []value) value {
		i := fr.i
		addr := strArg(a[0])
		for _, s := range *i.srvTable() {
			if s.state == 1 && s.addr == addr {
				return iface{t: types.NewPointer(i.namedType("net/http", "Server")), v: s.ptr}
			}
		}
		return iface{}
	}
	// zzverif.ListeningCount(addr string) int
	externals[zzPkg+"ListeningCount"] = func(fr *frame, a []value) value {
		n := 0
		for _, s := range *fr.i.srvTable() {
			if s.state == 1 && s.addr == strArg(a[0]) {
				n++
			}
		}
		return n
	}
}

// gorilla/websocket.Conn: sockets are outside every claim; the methods the
// hub and connections call are no-ops that succeed (also on a nil receiver).
func init() {
	ok := func(fr *frame, a []value) value { return iface{} }
	for _, m := range []string{"Close", "WriteMessage", "SetWriteDeadline", "SetReadDeadline", "WriteControl", "WriteJSON"} {
		externals["(*github.com/gorilla/websocket.Conn).Close"] = ok
		externals["(*github.com/gorilla/websocket.Conn)."+m] = ok
	}
	externals["(*github.com/gorilla/websocket.Conn).SetReadLimit"] = nop
	externals["(*github.com/gorilla/websocket.Conn).SetPongHandler"] = nop
}

// crypto/subtle: constant-time comparisons are compiler intrinsics; their
// value semantics is all that matters here.
func init() {
	externals["crypto/subtle.ConstantTimeCompare"] = func(fr *frame, a []value) value {
		i := fr.i
		x, _ := a[0].([]value)
		y, _ := a[1].([]value)
		if len(x) != len(y) {
			return int(0)
		}
		c := i.ts.tTrue
		for k := range x {
			c = i.ts.And(c, i.ts.Eq(byteTerm(i, x[k]), byteTerm(i, y[k])))
		}
		return mkSym(i.ts.Ite(c, i.ts.BV(1, 64), i.ts.BV(0, 64)), types.Int)
	}
	externals["crypto/subtle.ConstantTimeEq"] = func(fr *frame, a []value) value {
		i := fr.i
		c := i.ts.Eq(i.termOf(a[0]), i.termOf(a[1]))
		return mkSym(i.ts.Ite(c, i.ts.BV(1, 64), i.ts.BV(0, 64)), types.Int)
	}
}

// sync.Map: a map guarded by its own synchronisation (no race-monitor events);
// keys are compared as interface values.
func (i *interpreter) syncMapOf(p *value) *omap {
	tab, _ := i.side["syncmap"].(map[*value]*omap)
	if tab == nil {
		tab = map[*value]*omap{}
		i.side["syncmap"] = tab
	}
	m := tab[p]
	if m == nil {
		m = makeMap(types.NewInterfaceType(nil, nil))
		tab[p] = m
	}
	return m
}

func init() {
	externals["(*sync.Map).Load"] = func(fr *frame, a []value) value {
		if e := fr.i.syncMapOf(a[0].(*value)).find(fr, a[1]); e != nil {
			return tuple{e.val, true}
		}
		return tuple{iface{}, false}
	}
	externals["(*sync.Map).Store"] = func(fr *frame, a []value) value {
		fr.i.syncMapOf(a[0].(*value)).insert(fr, a[1], a[2])
		return nil
	}
	externals["(*sync.Map).LoadOrStore"] = func(fr *frame, a []value) value {
		m := fr.i.syncMapOf(a[0].(*value))
		if e := m.find(fr, a[1]); e != nil {
			return tuple{e.val, true}
		}
		m.insert(fr, a[1], a[2])
		return tuple{a[2], false}
	}
	externals["(*sync.Map).LoadAndDelete"] = func(fr *frame, a []value) value {
		m := fr.i.syncMapOf(a[0].(*value))
		if e := m.find(fr, a[1]); e != nil {
			v := e.val
			m.remove(fr, a[1])
			return tuple{v, true}
		}
		return tuple{iface{}, false}
	}
	externals["(*sync.Map).Delete"] = func(fr *frame, a []value) value {
		fr.i.syncMapOf(a[0].(*value)).remove(fr, a[1])
		return nil
	}
	externals["(*sync.Map).Range"] = func(fr *frame, a []value) value {
		m := fr.i.syncMapOf(a[0].(*value))
		for _, e := range append([]*mentry(nil), m.entries...) {
			if e.deleted {
				continue
			}
			r := call(fr.i, fr, fr.callpos, a[1], []value{e.key, e.val})
			if b, ok := r.(bool); ok && !b {
				break
			}
		}
		return nil
	}
}
