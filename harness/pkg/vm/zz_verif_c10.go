package vm

// C10 — malformed bytecode is rejected, never mis-executed (loader + VM).

import (
	"github.com/glyphlang/glyph/internal/zzverif"
)

var zzHeader = []byte{'G', 'L', 'Y', 'P', 1, 0, 0, 0}

// zzRun executes a buffer on a fresh VM with the step limit the property names.
// Engine-implicit assertions: no Go panic escapes, no allocation above the
// harness's MaxAlloc (out of proportion to a <64-byte input), and the call
// returns within the engine's step bound (termination obligation).
func zzRun(buf []byte, maxSteps int) {
	m := NewVM()
	m.SetMaxSteps(maxSteps)
	zzverif.Obligation("vm.Execute returns under the step limit")
	v, err := m.Execute(buf)
	zzverif.Assert((v == nil) != (err == nil), "execute-returns-both-or-neither")
}

// Arbitrary bytes after the magic and version: constant pool + code.
func zzRawBody(n, maxSteps int) {
	buf := append([]byte{}, zzHeader...)
	buf = append(buf, zzverif.Bytes("body", n)...)
	zzRun(buf, maxSteps)
	zzverif.Reach("raw-body")
}

// A well-formed pool followed by arbitrary code bytes.
func zzRawCode(n, maxSteps int) {
	buf := append([]byte{}, zzHeader...)
	buf = append(buf, 3, 0, 0, 0) // three constants
	buf = append(buf, 0x01, 7, 0, 0, 0, 0, 0, 0, 0) // int 7
	buf = append(buf, 0x04, 1, 0, 0, 0, 'x')        // string "x"
	buf = append(buf, 0x03, 1)                      // bool true
	buf = append(buf, byte(n), 0, 0, 0)             // instruction count (ignored by the VM)
	buf = append(buf, zzverif.Bytes("code", n)...)
	zzRun(buf, maxSteps)
	zzverif.Reach("raw-code")
}

func VerifC10_RawBody6()  { zzRawBody(6, 64) }
func VerifC10_RawBody10() { zzRawBody(10, 64) }
func VerifC10_RawCode5()  { zzRawCode(5, 64) }
func VerifC10_RawCode6()  { zzRawCode(6, 16) }
func VerifC10_RawCode8()  { zzRawCode(8, 8) }

// One instruction with a fully symbolic 32-bit operand on a small stack.
func VerifC10_OneInstr() {
	buf := append([]byte{}, zzHeader...)
	buf = append(buf, 2, 0, 0, 0)
	buf = append(buf, 0x01, 7, 0, 0, 0, 0, 0, 0, 0)
	buf = append(buf, 0x04, 1, 0, 0, 0, 'x')
	buf = append(buf, 7, 0, 0, 0)
	// push const 0, push const 1, then one arbitrary instruction with operand
	buf = append(buf, byte(OpPush), 0, 0, 0, 0, byte(OpPush), 1, 0, 0, 0)
	buf = append(buf, zzverif.Byte("opcode"))
	buf = append(buf, zzverif.Bytes("operand", 4)...)
	zzRun(buf, 5)
	zzverif.Reach("one-instr")
}

// The same with "true" on top of the stack (conditional jumps take their
// branch): a backward conditional jump must run into the step limit.
func VerifC10_OneInstrBool() {
	buf := append([]byte{}, zzHeader...)
	buf = append(buf, 2, 0, 0, 0)
	buf = append(buf, 0x03, zzverif.Byte("flag")&1) // bool constant
	buf = append(buf, 0x01, 7, 0, 0, 0, 0, 0, 0, 0)
	buf = append(buf, 7, 0, 0, 0)
	buf = append(buf, byte(OpPush), 1, 0, 0, 0, byte(OpPush), 0, 0, 0, 0)
	buf = append(buf, zzverif.Byte("opcode"))
	buf = append(buf, zzverif.Bytes("operand", 4)...)
	zzRun(buf, 6)
	zzverif.Reach("one-instr-bool")
}

// Loops closed by any of the three jump instructions run into the step limit:
// PUSH <bool>; <jump opcode>; <symbolic target byte>
func VerifC10_BackJump() {
	buf := append([]byte{}, zzHeader...)
	buf = append(buf, 1, 0, 0, 0)
	buf = append(buf, 0x03, zzverif.Byte("flag")&1)
	buf = append(buf, 2, 0, 0, 0)
	op := []Opcode{OpJump, OpJumpIfTrue, OpJumpIfFalse}[zzverif.Choice("jump", 3)]
	buf = append(buf, byte(OpPush), 0, 0, 0, 0, byte(op), zzverif.Byte("target"), 0, 0, 0)
	zzRun(buf, 30)
	zzverif.Reach("back-jump")
}

func VerifC10_Twin() {
	buf := append([]byte{}, zzHeader...)
	buf = append(buf, zzverif.Bytes("body", 4)...)
	m := NewVM()
	_, err := m.Execute(buf)
	zzverif.Assert(err == nil, "twin-must-fail")
	zzverif.Reach("twin")
}
