#!/usr/bin/env python3
# Development-time helper: builds seeded/RESULTS.md and fills detected_by in
# seeded/*/meta.json from sweep result files (tools/sweep_seeds.sh output).
# usage: mk_results.py <sweep_results.txt> [more result files; later files win]
import json, os, re, sys

V = os.path.dirname(os.path.dirname(os.path.abspath(__file__)))
# harnesses written (or listed under the property) because a seeded change was missed at first
ADDED = set("""
VerifC01_ArrayValues VerifC01_MatchGuard VerifC01_MatchObjectBindings VerifC01_ForObjectBreakContinue VerifC01_FunctionArguments
VerifC02_QueryBinding VerifC02_BodyBinding VerifC02_Statements VerifC02_Calls
VerifC03_TwoInputs VerifC15_TwoRoutesHot
VerifC04_NonASCIIStrings VerifC04_DepthGuardNoResidue VerifC09_AsyncFromNestedScope
VerifC05_WiringCompiled VerifC05_WiringInterpreted VerifC05_WiringInterpreted3 VerifC05_WiringRawPath VerifC05_RawPath4
VerifC06_GateShortToken VerifC06_GateLongToken VerifC11_ClientIPv6
VerifC07_QueryInt3 VerifC07_CompiledNestedReload
VerifC08_StoreTwoCreates VerifC08_StoreListVsUpdate VerifC08_SharedConstant VerifC08_RedisTwoIncrs VerifC08_RedisIncrVsDecr VerifC08_CompiledFailedRequestLeavesNothing
VerifC10_EscapeTail VerifC10_RouteBody2 VerifC10_BackJump VerifC10_OneInstrBool VerifC10_DecompileRawBody6 VerifC10_DecompileCode2 VerifC10_RoundTrip
VerifC11_IdleCredit VerifC11_ConcurrentFirstRequests VerifC11_EvictionKeepsRecentClients
VerifC12_NamedOffList VerifC12_ContractDoesNotWidenAllowList
VerifC13_BuildSelect3 VerifC13_BuildSelectDot5 VerifC13_IdentUnicode4 VerifC13_BuildJoinTail
VerifC14_BulkInsertLarge VerifC14_BulkInsertSQLite1000
VerifC15_ConcurrentRecompile VerifC15_HeldBytecodeSurvivesTierUp
VerifC16_DropRacesJoin VerifC16_SlowConsumerDropped
VerifC17_TreeChangesBetweenRequests
VerifC18_IdemHigh7 VerifC18_IdemBOM4 VerifC18_RoundTripStringContent VerifC18_RoundTripSigilNoSpace2 VerifC18_RoundTripFlag
VerifC19_Watcher2 VerifC19_DevOverlappingReloads
VerifC01_FloatCompare VerifC01_MatchArray VerifC01_HigherOrder VerifC01_Switch VerifC01_Pipe
VerifC06_DeclarationFromSource VerifC07_DefaultsAcrossRequests VerifC07_RecursiveInput VerifC07_RecursiveReturn
VerifC10_DecompileOneInstr VerifC12_MockProviderArguments VerifC13_BuilderReuse VerifC13_LongIdentifier
VerifC14_Nested VerifC16_BroadcastRacesLeave VerifC16_JoinRacesLeave VerifC04_UnencodableResult
VerifC20_Concurrent VerifC20_Tags3 VerifC20_ConcurrentEvictCallback VerifC20_ConcurrentDeleteByTag VerifC20_SetAlwaysReturns
""".split())

res = {}
for f in sys.argv[1:]:
    for l in open(f):
        p = [x.strip() for x in l.split("|")]
        if len(p) < 2 or not re.match(r"C\d\d-[A-Z]$", p[0]):
            continue
        res[p[0]] = p
rows = []
for sid in sorted(os.listdir(os.path.join(V, "seeded"))):
    d = os.path.join(V, "seeded", sid)
    if not os.path.isdir(d) or not re.match(r"C\d\d-[A-Z]$", sid):
        continue
    title = open(os.path.join(d, "notes.md")).readline().strip().lstrip("# ").strip()
    title = re.sub(r"^(Seed(ed change)?|C\d\d)[^-—:]*[-—:]\s*", "", title)
    r = res.get(sid)
    if r is None:
        verdict, hs = "not run in the last sweep", []
    elif len(r) >= 4 and r[1] == "exit 1":
        hs = r[3].split()
        verdict = "detected (exit 1, %s)" % r[2]
        if len(r) >= 5 and not r[4].startswith("wall"):
            verdict += "; " + r[4]
    elif len(r) >= 2 and r[1] == "exit 2":
        hs = []
        verdict = "NOT decided (exit 2)" + ("; " + r[4] if len(r) >= 5 else "")
    elif "does not apply" in r[1]:
        verdict, hs = "patch no longer applies to /repo's HEAD (a later repair changed the same lines)", []
    else:
        verdict, hs = "NOT detected (%s)" % r[1], []
    mp = os.path.join(d, "meta.json")
    meta = json.load(open(mp))
    meta["detected_by"] = {"check": sid[:3] + " quick", "verdict": verdict, "harnesses": hs}
    json.dump(meta, open(mp, "w"), indent=1)
    hs_txt = " ".join(h + (" (added)" if h in ADDED else "") for h in hs)
    rows.append("| %s | %s | %s | %s |" % (sid, title.replace("|", "/"), verdict, hs_txt))
with open(os.path.join(V, "seeded", "RESULTS.md"), "w") as f:
    f.write("# Seeded changes against the quick checks\n\n")
    f.write("One line per change under `seeded/`. Each run: scratch worktree of `/repo`'s HEAD with the\n"
            "change applied, the property's registered quick check pointed at it (`VERIF_REPO_DIR`),\n"
            "worktree removed afterwards (`tools/sweep_seeds.sh`). `/repo` itself is never touched.\n"
            "\"(added)\" marks a harness that was written, or listed under the property, because a seeded\n"
            "change was missed by the check as it stood; all of them run clean on the unchanged tree.\n\n")
    f.write("| change | what it does | verdict | harnesses reporting a confirmed violation |\n|---|---|---|---|\n")
    f.write("\n".join(rows) + "\n")
print(len(rows), "rows;", sum("detected (exit 1" in r for r in rows), "detected")
