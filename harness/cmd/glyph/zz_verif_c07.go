package main

// C07 in compiled mode, and across a reload of the program in one process.
//
// The compiled route handler (createCompiledRouteHandler -> bindCompiledInput)
// validates the request body against the declared input type, nested named
// types included. Two versions of a program are loaded one after the other
// (what `glyph dev` does on every saved edit: setupRoutes ->
// setCompiledTypeDefs); each serves a request whose nested object is built
// from symbolic choices. The oracle is the declaration that is current when
// the request is served.

import (
	"net/http"
	"net/url"

	"github.com/glyphlang/glyph/internal/zzverif"
	"github.com/glyphlang/glyph/pkg/ast"
	"github.com/glyphlang/glyph/pkg/compiler"
	"github.com/glyphlang/glyph/pkg/server"
)

const zzC07Marker = "body-ran"

func zzC07Program(addrFields string) string {
	return ": Addr {\n" + addrFields + "}\n\n: Person {\n  name: str!\n  addr: Addr!\n}\n\n@ POST /p {\n  < input: Person\n  > {marker: \"" + zzC07Marker + "\", got: input}\n}\n"
}

// zzC07Load parses a program, records its types the way setupRoutes does and
// returns the compiled handler of its only route.
func zzC07Load(src string) server.RouteHandler {
	m, err := parseSource(src)
	if err != nil {
		panic("harness program does not parse: " + err.Error())
	}
	setCompiledTypeDefs(m)
	var route *ast.Route
	for _, it := range m.Items {
		if r, ok := it.(*ast.Route); ok {
			route = r
		}
	}
	bc, err := compiler.NewCompilerWithOptLevel(compiler.OptBasic).CompileRoute(route)
	if err != nil {
		zzverif.Fail("c07 reload: route does not compile")
	}
	return createCompiledRouteHandler(route, bc, nil)
}

// field value shapes: 0 missing, 1 null, 2 string, 3 integral number
func zzC07Field(obj map[string]interface{}, name string, shape int) {
	switch shape {
	case 1:
		obj[name] = nil
	case 2:
		obj[name] = "s"
	case 3:
		obj[name] = float64(7)
	}
}

func zzC07Post(h server.RouteHandler, city, zip int) zzAnswer {
	addr := map[string]interface{}{}
	zzC07Field(addr, "city", city)
	zzC07Field(addr, "zip", zip)
	body := map[string]interface{}{"name": "n", "addr": addr}
	hd := http.Header{}
	hd.Set("Content-Type", "application/json")
	req := &http.Request{Method: "POST", Header: hd, URL: &url.URL{Path: "/p"}, RemoteAddr: "10.0.0.1:1", Body: zzBody(body, true)}
	return zzAsk(h, req, nil)
}

func zzC07Ran(a zzAnswer) bool {
	m, ok := a.body.(map[string]interface{})
	return ok && m["marker"] == zzC07Marker
}

// versions of type Addr and the request shapes conforming to each
var zzC07Versions = []struct {
	fields string
	ok     func(city, zip int) bool
}{
	{"  city: str!\n", func(city, zip int) bool { return city == 2 }},
	{"  city: str!\n  zip: int!\n", func(city, zip int) bool { return city == 2 && zip == 3 }},
	{"  zip: str!\n", func(city, zip int) bool { return zip == 2 }},
	{"  city: str\n  zip: int\n", func(city, zip int) bool { return (city == 0 || city == 1 || city == 2) && (zip == 0 || zip == 1 || zip == 3) }},
}

func zzC07Check(tag string, v int, a zzAnswer, city, zip int) {
	if zzC07Versions[v].ok(city, zip) {
		zzverif.Assert(a.status == 200 && zzC07Ran(a), tag+": conforming request rejected")
	} else {
		zzverif.Assert(!zzC07Ran(a), tag+": route body ran on input violating the declaration")
		zzverif.Assert(a.status >= 400 && a.status < 500, tag+": violating request not answered 4xx")
	}
}

func VerifC07_CompiledNestedReload() {
	v1 := zzverif.Choice("first version", len(zzC07Versions))
	v2 := zzverif.Choice("second version", len(zzC07Versions))
	city := zzverif.Choice("city", 4)
	zip := zzverif.Choice("zip", 4)
	h1 := zzC07Load(zzC07Program(zzC07Versions[v1].fields))
	zzC07Check("compiled nested input, first load", v1, zzC07Post(h1, city, zip), city, zip)
	h2 := zzC07Load(zzC07Program(zzC07Versions[v2].fields))
	city2 := zzverif.Choice("city after reload", 4)
	zip2 := zzverif.Choice("zip after reload", 4)
	zzC07Check("compiled nested input, after reload", v2, zzC07Post(h2, city2, zip2), city2, zip2)
	zzverif.Reach("c07-reload")
}
