package main

// C06 — declared authentication fails closed.

import (
	"net/http"
	"net/url"
	"strings"
	"time"

	"github.com/glyphlang/glyph/internal/zzverif"
	"github.com/glyphlang/glyph/pkg/ast"
	"github.com/glyphlang/glyph/pkg/server"
)

var zzAuthTypes = []string{"jwt", "apikey", "APIKEY", "ApiKey", "apiKey", "bearer", "", "apikeys"}

func zzTrim(s string) string { return strings.TrimSpace(s) }

// zzAuthSpec: does the request carry a credential configured for the auth type?
func zzAuthSpec(authType, jwtEnv, keysEnv string, hasAuth bool, authHdr string, hasKey bool, keyHdr string) bool {
	if strings.EqualFold(authType, "apikey") {
		presented := ""
		if hasKey {
			presented = zzTrim(keyHdr)
		}
		if presented == "" && hasAuth && len(authHdr) >= 7 && authHdr[:7] == "Bearer " {
			presented = zzTrim(authHdr[7:])
		}
		if presented == "" {
			return false
		}
		for _, k := range strings.Split(keysEnv, ",") {
			if t := zzTrim(k); t != "" && t == presented {
				return true
			}
		}
		return false
	}
	secret := zzTrim(jwtEnv)
	if secret == "" || !hasAuth || authHdr == "" {
		return false
	}
	token := authHdr
	if len(token) > 7 && token[:7] == "Bearer " {
		token = token[7:]
	}
	return token == secret
}

func zzAuthGate(envLen, tokLen int) {
	authType := zzAuthTypes[zzverif.Choice("authType", len(zzAuthTypes))]
	jwtEnv := zzverif.StringFrom("GLYPH_JWT_SECRET", envLen, "s ,x")
	keysEnv := zzverif.StringFrom("GLYPH_API_KEYS", envLen, "k ,x")
	zzverif.Setenv(envJWTSecret, jwtEnv)
	zzverif.Setenv(envAPIKeys, keysEnv)

	req := &http.Request{Method: "GET", Header: http.Header{}, RemoteAddr: "10.0.0.1:4000"}
	hasAuth := zzverif.Choice("hasAuthorization", 2) == 1
	authHdr := ""
	if hasAuth {
		prefix := []string{"", "Bearer ", "bearer ", "Bearer  "}[zzverif.Choice("scheme", 4)]
		authHdr = prefix + zzverif.StringFrom("token", tokLen, "skx ,")
		req.Header["Authorization"] = []string{authHdr}
	}
	hasKey := zzverif.Choice("hasXAPIKey", 2) == 1
	keyHdr := ""
	if hasKey {
		keyHdr = zzverif.StringFrom("apikey", tokLen, "skx ,")
		req.Header["X-Api-Key"] = []string{keyHdr}
	}
	// forwarding headers must not matter
	req.Header["X-Forwarded-For"] = []string{"6.6.6.6"}

	ran := false
	h := zzChain(&ast.Route{Path: "/p", Method: ast.Get, Auth: &ast.AuthConfig{AuthType: authType}},
		func(ctx *server.Context) error { ran = true; return nil })
	status, err := zzServe(h, req)
	want := zzAuthSpec(authType, jwtEnv, keysEnv, hasAuth, authHdr, hasKey, keyHdr)
	if ran {
		zzverif.Assert(want, "body-ran-without-a-configured-credential")
	} else {
		zzverif.Assert(!want, "valid-credential-rejected")
		zzverif.Assert(err == nil && (status == 401 || status == 429), "rejection-is-not-401-or-429")
	}
	zzverif.Reach("gate")
}

func VerifC06_Gate2() { zzAuthGate(2, 2) }
func VerifC06_Gate3() { zzAuthGate(3, 3) }

// credentials shorter / longer than the configured secret (prefixes, extensions)
func VerifC06_GateShortToken() { zzAuthGate(3, 2) }
func VerifC06_GateLongToken()  { zzAuthGate(2, 3) }

// Routes without an auth declaration are unaffected.
func VerifC06_NoAuthUnaffected() {
	zzverif.Setenv(envJWTSecret, zzverif.StringFrom("GLYPH_JWT_SECRET", 2, "s x"))
	ran := false
	h := zzChain(&ast.Route{Path: "/p", Method: ast.Get}, func(ctx *server.Context) error { ran = true; return nil })
	req := &http.Request{Method: "GET", Header: http.Header{}, RemoteAddr: "10.0.0.1:4000"}
	zzServe(h, req)
	zzverif.Assert(ran, "route-without-auth-blocked")
	zzverif.Reach("noauth")
}

// Lockout: a valid credential passes unless the client is locked out for
// repeated failures; a locked-out client is rejected without running the body;
// after the longest lockout has elapsed a valid credential passes again.
func VerifC06_Lockout() {
	zzverif.Setenv(envJWTSecret, "s3")
	runs := 0
	h := zzChain(&ast.Route{Path: "/p", Method: ast.Get, Auth: &ast.AuthConfig{AuthType: "jwt"}},
		func(ctx *server.Context) error { runs++; return nil })
	mk := func(tok string, port string, fwd string) *http.Request {
		r := &http.Request{Method: "GET", Header: http.Header{}, RemoteAddr: "10.0.0.1:" + port}
		r.Header["Authorization"] = []string{"Bearer " + tok}
		if fwd != "" {
			r.Header["X-Forwarded-For"] = []string{fwd}
		}
		return r
	}
	zzverif.AdvanceClock(0)
	nfail := zzverif.Choice("failures", 8) // 0..7 failures before the valid request
	for k := 0; k < nfail; k++ {
		// every failing request comes from a new source port and a new forged forwarding header
		st, _ := zzServe(h, mk("bad", []string{"1", "2", "3", "4", "5", "6", "7"}[k], []string{"", "1.1.1.1", "2.2.2.2", "", "3.3.3.3", "4.4.4.4", "5.5.5.5"}[k]))
		zzverif.Assert(st == 401 || st == 429, "bad-credential-not-rejected")
	}
	zzverif.Assert(runs == 0, "body-ran-on-bad-credential")
	gap := time.Duration(zzverif.IntRange("gapSeconds", 0, 1000)) * time.Second
	zzverif.AdvanceClock(gap)
	st, _ := zzServe(h, mk("s3", "9", ""))
	def := server.DefaultAuthRateLimitConfig()
	if nfail < def.MaxFailures {
		zzverif.Assert(st == 200 && runs == 1, "valid-credential-rejected-without-lockout")
	} else if gap < def.LockoutDuration {
		zzverif.Assert(st == 429 && runs == 0, "locked-out-client-served")
	}
	// beyond the longest lockout the client is always served again
	zzverif.AdvanceClock(def.MaxLockout + time.Second)
	before := runs
	st, _ = zzServe(h, mk("s3", "10", ""))
	zzverif.Assert(st == 200 && runs == before+1, "valid-credential-rejected-after-lockout-expired")
	zzverif.Reach("lockout")
}

func VerifC06_Twin() {
	zzverif.Setenv(envJWTSecret, "s")
	ran := false
	h := zzChain(&ast.Route{Path: "/p", Method: ast.Get, Auth: &ast.AuthConfig{AuthType: "jwt"}},
		func(ctx *server.Context) error { ran = true; return nil })
	req := &http.Request{Method: "GET", Header: http.Header{}, RemoteAddr: "10.0.0.1:4000"}
	req.Header["Authorization"] = []string{zzverif.StringFrom("token", 1, "sx")}
	zzServe(h, req)
	zzverif.Assert(!ran, "twin-must-fail")
	zzverif.Reach("twin")
}

// The declaration as it is written in a program: `+ auth(jwt)` anywhere among
// the other route directives (before or after an injection-free mix of query
// parameter declarations with and without defaults), parsed from source text, wired by the real setupRoutes and served
// through createHandler in both modes. Without the configured credential the
// body never runs, whatever else the request carries.
var zzC06Directives = []string{
	"  ? page: int = 1\n",
	"  ? q: str\n",
	"  ? flag: bool\n",
	"  ? size: int = 10 + 5\n",
}

func VerifC06_DeclarationFromSource() {
	zzverif.Setenv(envJWTSecret, "s3")
	zzverif.AdvanceClock(0) // time stands still: lockout timing is VerifC06_Lockout's subject
	before := zzverif.Choice("directives before the auth line", len(zzC06Directives)+1)
	after := zzverif.Choice("directives after the auth line", len(zzC06Directives)+1)
	src := "@ GET /p {\n"
	for k := 0; k < before; k++ {
		src += zzC06Directives[k]
	}
	src += "  + auth(jwt)\n"
	for k := 0; k < after; k++ {
		src += zzC06Directives[len(zzC06Directives)-1-k]
	}
	src += "  > {secret: 42}\n}\n"
	module, err := parseSource(src)
	if err != nil {
		zzverif.Reach("c06-source") // a directive order the parser does not accept declares nothing
		return
	}
	interpreted := zzverif.Bool("interpreted")
	_, _, _, router, err := setupRoutes(module, "/app/main.glyph", interpreted)
	if err != nil {
		zzverif.Reach("c06-source")
		return
	}
	q := []string{"", "page=2", "page=2&size=3&q=x"}[zzverif.Choice("query", 3)]
	cred := zzverif.Choice("credential", 3) // none, wrong, right
	req := &http.Request{Method: "GET", Header: http.Header{}, URL: &url.URL{Path: "/p", RawQuery: q}, RemoteAddr: "10.0.0.1:4000"}
	switch cred {
	case 1:
		req.Header["Authorization"] = []string{"Bearer nope"}
	case 2:
		req.Header["Authorization"] = []string{"Bearer s3"}
	}
	rec := &zzRec{}
	createHandler(router)(rec, req)
	if cred != 2 {
		zzverif.Assert(rec.status == 401 || rec.status == 429, "a route declaring + auth(jwt) in its source answered a request without the credential")
	} else {
		zzverif.Assert(rec.status == 200, "a valid credential was rejected by a route declaring + auth(jwt)")
	}
	zzverif.Reach("c06-source")
}
