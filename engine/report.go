package main

// Native replay of candidates and witnesses, known-findings handling,
// evidence file, exit code.

import (
	"bytes"
	"context"
	"encoding/json"
	"errors"
	"fmt"
	"os"
	"os/exec"
	"path/filepath"
	"regexp"
	"sort"
	"strings"
	"time"
)

type replayCase struct {
	Harness string   `json:"harness"`
	Vector  []VecEnt `json:"vector"`
	Expect  string   `json:"expect"`
	Key     string   `json:"key"`
	Obs     []string `json:"obs,omitempty"`
	Race    bool     `json:"race,omitempty"`
	Sched   bool     `json:"sched,omitempty"` // schedule-dependent: native confirmation by repeated runs
	MaxAlloc int64   `json:"max_alloc,omitempty"` // allocation bound of the harness (cases that predict an oversized allocation)
}

type replayResult struct {
	Outcome string
	Detail  string
	Obs     []string
}

const replayTestTmpl = `package %s

import (
	"encoding/json"
	"fmt"
	"os"
	"strconv"
	"testing"
	"time"

	"github.com/glyphlang/glyph/internal/zzverif"
)

var zzVerifHarnesses = map[string]func(){
%s}

func TestVerifReplay(t *testing.T) {
	b, err := os.ReadFile(os.Getenv("VERIF_REPLAY_FILE"))
	if err != nil {
		t.Fatal(err)
	}
	var cases []struct {
		Harness string        ` + "`json:\"harness\"`" + `
		Vector  []zzverif.Ent ` + "`json:\"vector\"`" + `
	}
	if err := json.Unmarshal(b, &cases); err != nil {
		t.Fatal(err)
	}
	k, _ := strconv.Atoi(os.Getenv("VERIF_CASE"))
	c := cases[k]
	f := zzVerifHarnesses[c.Harness]
	if f == nil {
		t.Fatalf("no harness %%s", c.Harness)
	}
	to := 20 * time.Second
	if s := os.Getenv("VERIF_CASE_TIMEOUT"); s != "" {
		if d, err := time.ParseDuration(s); err == nil {
			to = d
		}
	}
	outcome, detail, obs := zzverif.Run(c.Vector, to, f)
	if n, _ := strconv.Atoi(os.Getenv("VERIF_REPEAT")); n > 1 {
		// schedule-dependent case: repeat until something other than "ok" happens
		stop := time.Now().Add(8 * time.Second)
		for r := 1; r < n && outcome == "ok" && time.Now().Before(stop); r++ {
			outcome, detail, obs = zzverif.Run(c.Vector, to, f)
		}
	}
	ob, _ := json.Marshal(obs)
	fmt.Printf("\nVERIF-OUTCOME\t%%d\t%%s\t%%s\n", k, outcome, string(ob))
	if detail != "" {
		fmt.Printf("VERIF-DETAIL %%q\n", detail)
	}
}
`

// replay compiles one native test binary per package and runs every case in
// its own process. Returns per-case results (index-aligned).
func replay(pkgPath string, harnessNames []string, cases []replayCase, race bool) ([]replayResult, error) {
	tmp, err := os.MkdirTemp("", "verif-replay-")
	if err != nil {
		return nil, err
	}
	if os.Getenv("VERIF_KEEP_REPLAY") == "" {
		defer os.RemoveAll(tmp)
	} else {
		fmt.Fprintln(os.Stderr, "replay dir kept:", tmp)
	}
	rel := strings.TrimPrefix(strings.TrimPrefix(pkgPath, modPath), "/")
	pkgName := packageNameOf(filepath.Join(repoDir, rel))
	var reg strings.Builder
	sort.Strings(harnessNames)
	for _, h := range harnessNames {
		fmt.Fprintf(&reg, "\t%q: %s,\n", h, h)
	}
	testSrc := fmt.Sprintf(replayTestTmpl, pkgName, reg.String())
	testFile := filepath.Join(tmp, "zz_verif_replay_test.go")
	if err := os.WriteFile(testFile, []byte(testSrc), 0644); err != nil {
		return nil, err
	}
	ov := map[string]string{}
	for virt, real := range overlayFiles(true) {
		ov[virt] = real
	}
	ov[filepath.Join(repoDir, rel, "zz_verif_replay_test.go")] = testFile
	clockOverlay(tmp, ov)
	ovb, _ := json.Marshal(map[string]any{"Replace": ov})
	ovFile := filepath.Join(tmp, "overlay.json")
	os.WriteFile(ovFile, ovb, 0644)
	caseFile := filepath.Join(tmp, "cases.json")
	cb, _ := json.Marshal(cases)
	os.WriteFile(caseFile, cb, 0644)
	bin := filepath.Join(tmp, "replay.test")
	args := []string{"test", "-c", "-vet=off", "-overlay", ovFile, "-o", bin}
	if race {
		args = append(args, "-race")
	}
	args = append(args, "./"+rel)
	cmd := exec.Command("go", args...)
	cmd.Dir = repoDir
	cmd.Env = append(os.Environ(), "GOFLAGS=-mod=mod", "GOPROXY=off")
	var out bytes.Buffer
	cmd.Stdout, cmd.Stderr = &out, &out
	if err := cmd.Run(); err != nil {
		return nil, fmt.Errorf("native replay build failed: %v\n%s", err, tail(out.String(), 3000))
	}
	// schedule-dependent counterexamples: a second binary in which every lock
	// acquisition / release statement of the package under test is preceded by
	// a random short pause (zzverif.Perturb), so that repeated runs cover
	// interleavings inside the repository's own functions
	binSched := ""
	for k := range cases {
		if cases[k].Sched && cases[k].Key != "" {
			ov2 := map[string]string{}
			for a, b := range ov {
				ov2[a] = b
			}
			if perturbOverlay(filepath.Join(repoDir, rel), tmp, ov2) > 0 {
				ovb2, _ := json.Marshal(map[string]any{"Replace": ov2})
				ovFile2 := filepath.Join(tmp, "overlay_sched.json")
				os.WriteFile(ovFile2, ovb2, 0644)
				b2 := filepath.Join(tmp, "replay_sched.test")
				args2 := []string{"test", "-c", "-vet=off", "-overlay", ovFile2, "-o", b2}
				if race {
					args2 = append(args2, "-race")
				}
				args2 = append(args2, "./"+rel)
				c2 := exec.Command("go", args2...)
				c2.Dir = repoDir
				c2.Env = append(os.Environ(), "GOFLAGS=-mod=mod", "GOPROXY=off")
				if out2, err := c2.CombinedOutput(); err == nil {
					binSched = b2
				} else {
					fmt.Fprintln(os.Stderr, "note: perturbed replay binary not built:", tail(string(out2), 400))
				}
			}
			break
		}
	}
	results := make([]replayResult, len(cases))
	for k := range cases {
	  attempts := 1
	  if cases[k].Sched && cases[k].Key != "" {
		attempts = 6
	  }
	  for att := 0; att < attempts; att++ {
		ctx, cancel := context.WithTimeout(context.Background(), 60*time.Second)
		useBin := bin
		if attempts > 1 && binSched != "" && att%2 == 0 {
			useBin = binSched
		}
		c := exec.CommandContext(ctx, useBin, "-test.run", "^TestVerifReplay$", "-test.count=1", "-test.timeout=50s")
		c.Dir = filepath.Join(repoDir, rel)
		if _, err := os.Stat(c.Dir); err != nil {
			c.Dir = repoDir
		}
		c.Env = append(os.Environ(), "VERIF_REPLAY_FILE="+caseFile, fmt.Sprintf("VERIF_CASE=%d", k), "VERIF_CASE_TIMEOUT=15s", "GORACE=halt_on_error=0")
		if cases[k].Expect == "alloc" && cases[k].MaxAlloc > 0 {
			// an oversized allocation usually succeeds natively: the replay measures
			// the bytes allocated by the harness and reports "alloc" above the bound
			c.Env = append(c.Env, fmt.Sprintf("VERIF_MAX_ALLOC=%d", cases[k].MaxAlloc))
		}
		if attempts > 1 {
			// repeated runs under varying parallelism stand in for schedule control
			c.Env = append(c.Env, "VERIF_REPEAT=400", fmt.Sprintf("GOMAXPROCS=%d", []int{4, 2, 16, 8, 3, 1}[att]))
		}
		var o bytes.Buffer
		c.Stdout, c.Stderr = &o, &o
		runErr := c.Run()
		cancel()
		txt := o.String()
		r := replayResult{Outcome: "crash"}
		for _, line := range strings.Split(txt, "\n") {
			if strings.HasPrefix(line, "VERIF-OUTCOME\t") {
				f := strings.SplitN(line, "\t", 4)
				if len(f) >= 3 {
					r.Outcome = f[2]
				}
				if len(f) == 4 {
					json.Unmarshal([]byte(f[3]), &r.Obs)
				}
			}
			if strings.HasPrefix(line, "VERIF-DETAIL ") {
				r.Detail = line[13:]
			}
		}
		if r.Outcome == "crash" {
			switch {
			case errors.Is(ctx.Err(), context.DeadlineExceeded) || strings.Contains(txt, "test timed out"):
				r.Outcome = "hang"
			case strings.Contains(txt, "all goroutines are asleep"):
				r.Outcome = "deadlock"
			case strings.Contains(txt, "fatal error:"):
				r.Outcome = "fatal"
			case strings.Contains(txt, "panic:"):
				r.Outcome = "panic"
			}
			r.Detail = tail(txt, 1500)
		}
		if strings.Contains(txt, "WARNING: DATA RACE") {
			r.Detail = "DATA RACE " + r.Detail
			if race && cases[k].Race {
				// only cases that predict a race are classified by the detector's
				// verdict; a path witness of the same harness keeps its own outcome
				r.Outcome = "race"
			}
		}
		_ = runErr
		results[k] = r
		if attempts > 1 && expectMatches(cases[k].Expect, r.Outcome) {
			break
		}
	  }
	}
	return results, nil
}

func tail(s string, n int) string {
	if len(s) > n {
		return "..." + s[len(s)-n:]
	}
	return s
}

func packageNameOf(dir string) string {
	ents, _ := os.ReadDir(dir)
	for _, e := range ents {
		if strings.HasSuffix(e.Name(), ".go") && !strings.HasSuffix(e.Name(), "_test.go") {
			b, _ := os.ReadFile(filepath.Join(dir, e.Name()))
			for _, line := range strings.Split(string(b), "\n") {
				if strings.HasPrefix(line, "package ") {
					return strings.Fields(line)[1]
				}
			}
		}
	}
	return filepath.Base(dir)
}

// expectMatches: does the native outcome confirm the engine's prediction?
func expectMatches(expect, got string) bool {
	if expect == got {
		return true
	}
	switch expect {
	case "panic":
		return got == "panic" || got == "fatal" || got == "crash"
	case "fatal":
		return got == "fatal" || got == "panic" || got == "crash"
	case "alloc":
		// oversized allocation: natively either succeeds in allocating a lot,
		// or dies with out of memory / len out of range
		return got == "fatal" || got == "panic" || got == "crash" || got == "hang" || got == "alloc"
	case "deadlock":
		return got == "deadlock" || got == "hang" || got == "fatal"
	case "hang":
		return got == "hang"
	case "race":
		return got == "race"
	}
	return false
}

func report(cc *checkCfg, tier string, seed int, res *results, ran []*harnessCfg, noReplay bool, loadS, wall float64, p *program) int {
	known := loadKnown()
	isKnown := func(h, key string) *knownFinding {
		for k := range known {
			// a finding recorded for a harness also covers the same harness at another bound
			// (VerifC11_DeclaredLimit / VerifC11_DeclaredLimit3): the key names the failing case
			if known[k].Property == cc.Property && known[k].Key == key && (known[k].Harness == "" || harnessFamily(known[k].Harness) == harnessFamily(h)) {
				return &known[k]
			}
		}
		return nil
	}
	exit := 0
	var lines []string
	broken := func(format string, a ...any) {
		lines = append(lines, "BROKEN-CHECK: "+fmt.Sprintf(format, a...))
		if exit != 1 {
			exit = 2
		}
	}

	// collect replay cases per package
	type pc struct {
		cases   []replayCase
		names   map[string]bool
		raceAny bool
	}
	perPkg := map[string]*pc{}
	cfgOf := map[string]*harnessCfg{}
	for _, h := range ran {
		cfgOf[h.Name] = h
		if perPkg[h.Pkg] == nil {
			perPkg[h.Pkg] = &pc{names: map[string]bool{}}
		}
	}
	// all harness function names in the overlay for a package must be registered only if used
	totalPaths, totalDecisions, totalViol := 0, 0, 0
	var samples []any
	witnessCount := 0
	for _, h := range ran {
		hr := res.h(h.Name)
		totalPaths += hr.Paths
		totalDecisions += hr.Decisions
		pp := perPkg[h.Pkg]
		for _, v := range sortedViolations(hr) {
			pp.cases = append(pp.cases, replayCase{Harness: h.Name, Vector: v.Vector, Expect: v.Expect, Key: v.Key, Race: v.Kind == "race", Sched: h.Delays > 0 || h.Preempt > 0 || h.NondetMaps > 0, MaxAlloc: h.MaxAlloc})
			pp.names[h.Name] = true
			if v.Kind == "race" {
				pp.raceAny = true
			}
		}
		for _, w := range hr.Witnesses {
			pp.cases = append(pp.cases, replayCase{Harness: h.Name, Vector: w.Vector, Expect: "ok", Obs: w.Obs})
			pp.names[h.Name] = true
		}
	}

	confirmed := map[string]string{} // harness|key -> native outcome
	mismatches := 0
	if !noReplay {
		for _, pkg := range sortedKeys(perPkg) {
			pp := perPkg[pkg]
			if len(pp.cases) == 0 {
				continue
			}
			var names []string
			for n := range pp.names {
				names = append(names, n)
			}
			rr, err := replay(pkg, names, pp.cases, pp.raceAny)
			if err != nil {
				broken("%v", err)
				continue
			}
			for k, c := range pp.cases {
				r := rr[k]
				if c.Key == "" { // path witness
					witnessCount++
					ok := r.Outcome == "ok"
					if ok && len(c.Obs) > 0 {
						ok = strings.Join(c.Obs, "|") == strings.Join(r.Obs, "|")
					}
					if !ok {
						mismatches++
						broken("ENGINE-MISMATCH harness=%s path witness predicted ok %v, native run gave %s %v %s", c.Harness, c.Obs, r.Outcome, r.Obs, tail(r.Detail, 600))
					}
					continue
				}
				if expectMatches(c.Expect, r.Outcome) {
					confirmed[c.Harness+"|"+c.Key] = r.Outcome
				} else {
					confirmed[c.Harness+"|"+c.Key] = "UNCONFIRMED:" + r.Outcome + " " + tail(r.Detail, 400)
				}
			}
		}
	}

	replayDir := filepath.Join(verifDir, "replay", cc.Property)
	if d := os.Getenv("VERIF_EVIDENCE_DIR"); d != "" {
		replayDir = filepath.Join(d, "replay", cc.Property)
	}
	os.MkdirAll(replayDir, 0755)
	var violLines, knownLines []string
	knownHit := 0
	for _, h := range ran {
		hr := res.h(h.Name)
		if h.Twin {
			if len(hr.Violations) == 0 {
				broken("vacuity twin %s produced no violation", h.Name)
			}
			continue
		}
		for _, v := range sortedViolations(hr) {
			st := confirmed[h.Name+"|"+v.Key]
			if kf := isKnown(h.Name, v.Key); kf != nil {
				if noReplay || !strings.HasPrefix(st, "UNCONFIRMED") {
					knownLines = append(knownLines, fmt.Sprintf("KNOWN-FINDING: property=%s %s [%s %s]", cc.Property, kf.What, h.Name, v.Key))
					knownHit++
				} else {
					lines = append(lines, fmt.Sprintf("NOTE: listed finding no longer reproduces natively: %s %s (%s)", h.Name, v.Key, st))
				}
				continue
			}
			if noReplay {
				lines = append(lines, fmt.Sprintf("CANDIDATE harness=%s key=%q msg=%s", h.Name, v.Key, v.Msg))
				totalViol++
				continue
			}
			if strings.HasPrefix(st, "UNCONFIRMED") {
				if hc := cfgOf[h.Name]; v.Kind == "race" || v.Kind == "deadlock" || (hc != nil && (hc.Delays > 0 || hc.Preempt > 0 || hc.NondetMaps > 0)) {
					lines = append(lines, fmt.Sprintf("UNCONFIRMED harness=%s key=%q (%s) native: %s", h.Name, v.Key, v.Msg, st))
					continue
				}
				broken("ENGINE-MISMATCH harness=%s key=%q predicted %s (%s) but native replay gave %s", h.Name, v.Key, v.Expect, v.Msg, st)
				vb, _ := json.MarshalIndent(v, "", " ")
				os.WriteFile(filepath.Join(replayDir, "unconfirmed_"+sanitize(h.Name+"__"+v.Key)+".json"), vb, 0644)
				continue
			}
			totalViol++
			base := sanitize(h.Name + "__" + v.Key)
			if len(base) > 120 {
				base = base[:120]
			}
			fn := filepath.Join(replayDir, fmt.Sprintf("%s_%08x.json", base, fnv32(h.Name+"|"+v.Key)))
			v.Confirmed = st
			vb, _ := json.MarshalIndent(v, "", " ")
			os.WriteFile(fn, vb, 0644)
			violLines = append(violLines, fmt.Sprintf("VIOLATION property=%s replay=%s", cc.Property, fn))
			lines = append(lines, fmt.Sprintf("  violation harness=%s key=%q: %s [native: %s]", h.Name, v.Key, v.Msg, st))
		}
	}
	if totalViol > 0 && !noReplay {
		exit = 1
	}

	// inconclusive / vacuity
	for _, h := range ran {
		hr := res.h(h.Name)
		for _, m := range hr.Inconclusive {
			broken("harness %s inconclusive: %s", h.Name, firstLines(m, 12))
		}
		if !h.Twin {
			if hr.Paths == 0 {
				broken("harness %s explored no complete path (vacuous)", h.Name)
			}
			if len(hr.Reached) == 0 && len(hr.Violations) == 0 {
				broken("harness %s never reached its Reach marker (vacuous)", h.Name)
			}
		}
		if hr.Unknowns > 0 {
			broken("harness %s: %d solver 'unknown' answers on branch feasibility", h.Name, hr.Unknowns)
		}
	}
	if len(ran) == 0 {
		broken("no harness ran")
	}

	// samples
	for _, h := range ran {
		hr := res.h(h.Name)
		for k, w := range hr.Witnesses {
			if k >= 2 {
				break
			}
			samples = append(samples, map[string]any{"harness": h.Name, "path_witness_inputs": compactVector(w.Vector), "expected": w.Expect, "observations": w.Obs})
		}
		for _, v := range sortedViolations(hr) {
			if len(samples) < 40 {
				samples = append(samples, map[string]any{"harness": h.Name, "finding_key": v.Key, "inputs": compactVector(v.Vector), "msg": v.Msg, "native": confirmed[h.Name+"|"+v.Key]})
			}
		}
	}
	if len(samples) == 0 {
		samples = append(samples, "no sample recorded")
	}

	// evidence
	var funcs []string
	for f := range res.funcs {
		if strings.Contains(f, "glyphlang/glyph") && !strings.Contains(f, "zzverif") && !strings.Contains(f, "Verif") {
			funcs = append(funcs, f)
		}
	}
	sort.Strings(funcs)
	var stubs []string
	for s, n := range res.stubs {
		if !strings.Contains(s, "zzverif") {
			stubs = append(stubs, fmt.Sprintf("%s x%d", s, n))
		}
	}
	sort.Strings(stubs)
	if os.Getenv("VERIF_VERBOSE") != "" {
		for _, st := range stubs {
			if strings.HasPrefix(st, "CONCRETIZE") {
				fmt.Fprintln(os.Stderr, "  ", st)
			}
		}
	}
	perH := map[string]any{}
	var bounds []string
	bounds = append(bounds, cc.Bounds...)
	notes := map[string]bool{}
	for _, h := range ran {
		hr := res.h(h.Name)
		perH[h.Name] = map[string]any{
			"paths": hr.Paths, "pruned_by_assume": hr.Pruned, "solver_decided_branches": hr.Decisions,
			"violation_keys": len(hr.Violations), "asserts": hr.Asserts, "reached": hr.Reached,
			"max_ssa_steps_on_a_path": hr.MaxStepsSeen, "wall_s": round2(hr.Wall), "twin": h.Twin,
			"bounds": h.Bounds, "step_limit": h.MaxSteps, "preemption_bound": h.Preempt, "max_alloc_bytes": h.MaxAlloc, "scaled_constants": h.Scale,
		}
		for n := range hr.Notes {
			notes[n] = true
		}
	}
	cov := map[string]any{
		"states":                        max1(totalPaths),
		"transitions":                   max1(totalDecisions),
		"traces_validated_against_impl": witnessCount,
		"samples":                       samples,
		"programs":                      max1(totalPaths),
		"disagreements_checked":         len(confirmed),
		"evaluations":                   max1(totalPaths),
		"distinct_nontrivial":           max1(totalPaths),
		"rule":                          "one evaluation = one feasible path of a harness through the real code (distinct path condition over the symbolic inputs; all decided by the SMT solver); " + cc.Rule,
		"exhaustive":                    exit == 0 || exit == 1,
		"harnesses":                     perH,
		"functions_encoded":             funcs,
		"stubs_hit":                     stubs,
		"bounds":                        bounds,
		"outside_claim":                 cc.OutsideClaim,
		"queries_discharged":            res.solver.Queries,
		"queries_sat":                   res.solver.Sat,
		"queries_unsat":                 res.solver.Unsat,
		"queries_unknown":               res.solver.Unknown,
		"solver_seconds":                round2(res.solver.Seconds),
		"solver":                        "z3 (kept alive, check-sat-assuming)",
		"load_seconds":                  round2(loadS),
		"known_findings_hit":            knownHit,
		"engine_notes":                  sortedKeys(notes),
		"witness_mismatches":            mismatches,
		"explanation":                   "bounded symbolic execution of the real Go SSA with SMT-decided branches; see DESIGN.md",
	}
	ev := map[string]any{
		"property_id": cc.Property,
		"tier":        tier,
		"seed":        seed,
		"level":       cc.Level,
		"coverage":    cov,
		"assumptions": cc.Assumptions,
		"wall_s":      round2(wall),
		"violations":  totalViol,
	}
	eb, _ := json.MarshalIndent(ev, "", " ")
	evDir := filepath.Join(verifDir, "evidence")
	if d := os.Getenv("VERIF_EVIDENCE_DIR"); d != "" {
		evDir = d // development only (seed tryouts): keep /verif/evidence untouched
	}
	os.MkdirAll(evDir, 0755)
	if err := os.WriteFile(filepath.Join(evDir, cc.Property+".json"), eb, 0644); err != nil {
		broken("cannot write evidence: %v", err)
	}

	for _, l := range knownLines {
		fmt.Println(l)
	}
	for _, l := range lines {
		fmt.Println(l)
	}
	for _, l := range violLines {
		fmt.Println(l)
	}
	fmt.Printf("%s %s: %d harnesses, %d paths, %d solver queries (%.1fs solver), %d witnesses replayed, %d violations, %d known; load %.1fs wall %.1fs -> exit %d\n",
		cc.Property, tier, len(ran), totalPaths, res.solver.Queries, res.solver.Seconds, witnessCount, totalViol, knownHit, loadS, wall, exit)
	if noReplay && exit == 0 {
		return 3
	}
	return exit
}

func firstLines(s string, n int) string {
	l := strings.Split(s, "\n")
	if len(l) > n {
		l = l[:n]
	}
	return strings.Join(l, "\n")
}

func compactVector(v []VecEnt) []string {
	var out []string
	for _, e := range v {
		out = append(out, fmt.Sprintf("%s=%d", e.Name, int64(e.Val)))
	}
	return out
}

func round2(f float64) float64 { return float64(int(f*100)) / 100 }
func max1(n int) int {
	if n < 1 {
		return 1
	}
	return n
}

// clockOverlay rewrites time.Now()/time.Since( in the repository's own
// packages to the harness runtime's virtual clock, for native replay only.
func clockOverlay(tmp string, ov map[string]string) {
	n := 0
	for _, root := range []string{"pkg", "cmd"} {
		filepath.Walk(filepath.Join(repoDir, root), func(p string, info os.FileInfo, err error) error {
			if err != nil || info.IsDir() || !strings.HasSuffix(p, ".go") || strings.HasSuffix(p, "_test.go") {
				return nil
			}
			if _, overlaid := ov[p]; overlaid {
				return nil
			}
			b, err := os.ReadFile(p)
			if err != nil {
				return nil
			}
			src := string(b)
			if !strings.Contains(src, "time.Now()") && !strings.Contains(src, "time.Since(") {
				return nil
			}
			if !strings.Contains(src, "\"time\"") {
				return nil // "time" imported under another name: leave alone
			}
			src = strings.ReplaceAll(src, "time.Now()", "zzverifclk.Now()")
			src = strings.ReplaceAll(src, "time.Since(", "zzverifclk.Since(")
			// add the import right after the package clause
			k := strings.Index(src, "\npackage ")
			if strings.HasPrefix(src, "package ") {
				k = 0
			} else if k >= 0 {
				k++
			} else {
				return nil
			}
			e := strings.Index(src[k:], "\n")
			if e < 0 {
				return nil
			}
			src = src[:k+e+1] + "import zzverifclk \"github.com/glyphlang/glyph/internal/zzverif\"\n" + src[k+e+1:] + "\nvar _ = time.Now\n"
			n++
			out := filepath.Join(tmp, fmt.Sprintf("clk%d.go", n))
			if os.WriteFile(out, []byte(src), 0644) == nil {
				ov[p] = out
			}
			return nil
		})
	}
}

func fnv32(s string) uint32 {
	h := uint32(2166136261)
	for i := 0; i < len(s); i++ {
		h ^= uint32(s[i])
		h *= 16777619
	}
	return h
}

var lockStmtRe = regexp.MustCompile(`(?m)^([ \t]+)([A-Za-z_][A-Za-z0-9_\.\[\]]*)\.(Lock|RLock|Unlock|RUnlock)\(\)[ \t]*$`)

// perturbOverlay rewrites the non-test files of one package directory so that
// every statement of the form x.Lock() / x.RLock() / x.Unlock() / x.RUnlock()
// is preceded by zzverif.Perturb(). Returns the number of files rewritten.
func perturbOverlay(dir, tmp string, ov map[string]string) int {
	ents, _ := os.ReadDir(dir)
	n := 0
	for _, e := range ents {
		name := e.Name()
		if e.IsDir() || !strings.HasSuffix(name, ".go") || strings.HasSuffix(name, "_test.go") || strings.HasPrefix(name, "zz_verif") {
			continue
		}
		p := filepath.Join(dir, name)
		srcPath := p
		if o, ok := ov[p]; ok {
			srcPath = o
		}
		b, err := os.ReadFile(srcPath)
		if err != nil {
			continue
		}
		src := string(b)
		if !lockStmtRe.MatchString(src) {
			continue
		}
		src = lockStmtRe.ReplaceAllString(src, "${1}zzverifprt.Perturb()\n${1}${2}.${3}()")
		k := strings.Index(src, "\npackage ")
		if strings.HasPrefix(src, "package ") {
			k = 0
		} else if k >= 0 {
			k++
		} else {
			continue
		}
		eol := strings.Index(src[k:], "\n")
		if eol < 0 {
			continue
		}
		src = src[:k+eol+1] + "import zzverifprt \"github.com/glyphlang/glyph/internal/zzverif\"\n" + src[k+eol+1:]
		n++
		out := filepath.Join(tmp, fmt.Sprintf("prt%d.go", n))
		if os.WriteFile(out, []byte(src), 0644) == nil {
			ov[p] = out
		}
	}
	return n
}

// harnessFamily strips the bound suffix (trailing digits) of a harness name.
func harnessFamily(h string) string {
	return strings.TrimRight(h, "0123456789")
}
