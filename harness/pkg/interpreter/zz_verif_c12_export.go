package interpreter

// ZZAllowedExact reports whether name is an entry of the provider method
// allow-list that grants access (exact spelling of the Go method). The C12
// harness' probe calls it from inside every probe method: a Go method that
// runs although its own name is not granted is the violation, whatever lookup
// path led to it.
func ZZAllowedExact(name string) bool { return allowedMethods[name] }

var zzAllowSnapshot map[string]bool

// ZZSnapshotAllowList records the allow-list as it is when the process starts
// serving (before any program is loaded). ZZAllowedAtStart answers from that
// record: loading a program must not widen what programs may call on the
// built-in providers.
func ZZSnapshotAllowList() {
	zzAllowSnapshot = make(map[string]bool, len(allowedMethods))
	for k, v := range allowedMethods {
		zzAllowSnapshot[k] = v
	}
}

func ZZAllowedAtStart(name string) bool { return zzAllowSnapshot[name] }
