package main

// One long-lived SMT solver process per worker (z3 -in), no push/pop: every
// term is defined once at level 0 and path conditions are passed as
// assumptions to check-sat-assuming.

import (
	"bufio"
	"fmt"
	"io"
	"os/exec"
	"strconv"
	"strings"
	"time"
)

type satResult int

const (
	rUnsat satResult = iota
	rSat
	rUnknown
)

func (r satResult) String() string { return [...]string{"unsat", "sat", "unknown"}[r] }

type SolverStats struct {
	Queries, Sat, Unsat, Unknown int
	Fallback                     int
	Seconds                      float64
}

type Solver struct {
	cmdline []string
	cmd     *exec.Cmd
	in      io.WriteCloser
	out     *bufio.Reader
	ts      *TermStore
	declared map[int]bool
	stats   SolverStats
	timeoutMs int
	log     io.Writer
	nvars   int
	ndefs   int
	inScope bool
	scopeDefs []*Term
	lastLits  []*Term
	lastByFallback bool
}

// oneShot asks cvc5 and then z3-new about lits in a fresh process, sending
// only the definitions the literals depend on. With want != nil and a sat
// answer it also returns model values.
func (s *Solver) oneShot(lits []*Term, want []*Term) (satResult, []uint64) {
	var sb strings.Builder
	sb.WriteString("(set-logic ALL)\n(set-option :produce-models true)\n")
	for _, uf := range []string{"uf_log", "uf_log2", "uf_log10", "uf_exp", "uf_sin", "uf_cos", "uf_tan"} {
		sb.WriteString("(declare-fun " + uf + " ((_ FloatingPoint 11 53)) (_ FloatingPoint 11 53))\n")
	}
	for _, uf := range []string{"uf_mod", "uf_pow", "uf_max", "uf_min"} {
		sb.WriteString("(declare-fun " + uf + " ((_ FloatingPoint 11 53) (_ FloatingPoint 11 53)) (_ FloatingPoint 11 53))\n")
	}
	seen := map[*Term]bool{}
	var visit func(t *Term)
	visit = func(t *Term) {
		if seen[t] || t.op == "const" {
			return
		}
		seen[t] = true
		for _, a := range t.args {
			visit(a)
		}
		if t.op == "var" {
			sb.WriteString(fmt.Sprintf("(declare-const %s %s)\n", t.text, t.sort.smt()))
		} else {
			sb.WriteString(fmt.Sprintf("(define-fun %s () %s %s)\n", t.name(), t.sort.smt(), t.smtBody()))
		}
	}
	for _, l := range lits {
		visit(l)
	}
	for _, w := range want {
		visit(w)
	}
	for _, l := range lits {
		sb.WriteString("(assert " + l.name() + ")\n")
	}
	sb.WriteString("(check-sat)\n")
	for _, w := range want {
		q := w.name()
		if w.sort.k == sFP64 || w.sort.k == sFP32 {
			q = "(fp.to_ieee_bv " + w.name() + ")"
		}
		sb.WriteString("(get-value (" + q + "))\n")
	}
	for _, cmdline := range [][]string{{"cvc5", "--tlimit=60000", "--fp-exp"}, {"z3-new", "-in", "-T:60"}, {"z3", "-in", "-T:150"}} {
		if cmdline[0] == "cvc5" {
			cmdline = append(cmdline, "--lang=smt2", "-")
		}
		cmd := exec.Command(cmdline[0], cmdline[1:]...)
		cmd.Stdin = strings.NewReader(sb.String())
		out, _ := cmd.Output()
		lines := strings.Split(strings.TrimSpace(string(out)), "\n")
		if len(lines) == 0 {
			continue
		}
		bad := false
		for _, l := range lines {
			if strings.HasPrefix(l, "(error") {
				bad = true
			}
		}
		if bad {
			continue
		}
		switch strings.TrimSpace(lines[0]) {
		case "unsat":
			return rUnsat, nil
		case "sat":
			if want == nil {
				return rSat, nil
			}
			// values: one s-expression per want (may span lines); join and split on "((" 
			rest := strings.Join(lines[1:], " ")
			parts := strings.Split(rest, "((")
			var vals []uint64
			for _, p := range parts[1:] {
				vals = append(vals, parseModelValue("(("+p, bvSort(64)))
			}
			if len(vals) == len(want) {
				return rSat, vals
			}
		}
	}
	return rUnknown, nil
}

// BeginPath opens a solver scope: everything defined until EndPath is
// forgotten afterwards, so that one path's (possibly expensive) definitions
// never burden the queries of later paths.
func (s *Solver) BeginPath() {
	s.send("(push 1)")
	s.inScope = true
	s.scopeDefs = s.scopeDefs[:0]
}

func (s *Solver) EndPath() {
	if !s.inScope {
		return
	}
	s.send("(pop 1)")
	for _, t := range s.scopeDefs {
		t.sent = false
	}
	s.scopeDefs = s.scopeDefs[:0]
	s.inScope = false
}

// MaybeRestart starts a fresh solver process when too many definitions
// have accumulated (called between paths).
func (s *Solver) MaybeRestart() {
	if s.ndefs > 400000 {
		st := s.stats
		s.Close()
		s.start()
		s.stats = st
		s.ndefs = 0
	}
}

func newSolver(ts *TermStore, timeoutMs int, cmdline ...string) *Solver {
	if len(cmdline) == 0 {
		cmdline = []string{"z3", "-in"}
	}
	s := &Solver{cmdline: cmdline, ts: ts, timeoutMs: timeoutMs}
	s.start()
	return s
}

func (s *Solver) start() {
	s.cmd = exec.Command(s.cmdline[0], s.cmdline[1:]...)
	in, err := s.cmd.StdinPipe()
	if err != nil {
		panic(err)
	}
	out, err := s.cmd.StdoutPipe()
	if err != nil {
		panic(err)
	}
	s.cmd.Stderr = s.cmd.Stdout
	if err := s.cmd.Start(); err != nil {
		panic(engineErr{"cannot start solver: " + err.Error()})
	}
	s.in = in
	s.out = bufio.NewReaderSize(out, 1<<16)
	s.declared = map[int]bool{}
	s.inScope = false
	s.scopeDefs = nil
	// reset sent flags: all terms must be re-sent to a fresh process
	for _, t := range s.ts.byKey {
		if t.op != "const" {
			t.sent = false
		}
	}
	s.send("(set-option :produce-models true)")
	for _, uf := range []string{"uf_log", "uf_log2", "uf_log10", "uf_exp", "uf_sin", "uf_cos", "uf_tan"} {
		s.send("(declare-fun " + uf + " ((_ FloatingPoint 11 53)) (_ FloatingPoint 11 53))")
	}
	for _, uf := range []string{"uf_mod", "uf_pow", "uf_max", "uf_min"} {
		s.send("(declare-fun " + uf + " ((_ FloatingPoint 11 53) (_ FloatingPoint 11 53)) (_ FloatingPoint 11 53))")
	}
	if strings.Contains(s.cmdline[0], "z3") {
		s.send(fmt.Sprintf("(set-option :timeout %d)", s.timeoutMs))
	}
}

func (s *Solver) Close() {
	if s.cmd != nil {
		s.in.Close()
		s.cmd.Process.Kill()
		s.cmd.Wait()
		s.cmd = nil
	}
}

func (s *Solver) send(line string) {
	if s.log != nil {
		fmt.Fprintln(s.log, line)
	}
	io.WriteString(s.in, line+"\n")
}

// define makes sure t (and everything below it) is known to the solver.
func (s *Solver) define(t *Term) {
	if t.sent {
		return
	}
	// iterative post-order to avoid deep recursion
	type fr struct {
		t *Term
		i int
	}
	stack := []fr{{t, 0}}
	for len(stack) > 0 {
		top := &stack[len(stack)-1]
		if top.t.sent {
			stack = stack[:len(stack)-1]
			continue
		}
		if top.i < len(top.t.args) {
			a := top.t.args[top.i]
			top.i++
			if !a.sent {
				stack = append(stack, fr{a, 0})
			}
			continue
		}
		tt := top.t
		if tt.op == "var" {
			s.send(fmt.Sprintf("(declare-const %s %s)", tt.text, tt.sort.smt()))
		} else {
			s.send(fmt.Sprintf("(declare-const %s %s)", tt.name(), tt.sort.smt()))
			if tt.sort.k == sFP64 || tt.sort.k == sFP32 {
				// structural equality (NaN = NaN) for definitions
				s.send(fmt.Sprintf("(assert (= %s %s))", tt.name(), tt.smtBody()))
			} else {
				s.send(fmt.Sprintf("(assert (= %s %s))", tt.name(), tt.smtBody()))
			}
			s.ndefs++
		}
		if s.inScope {
			s.scopeDefs = append(s.scopeDefs, tt)
		}
		tt.sent = true
		stack = stack[:len(stack)-1]
	}
}

func (s *Solver) readLine() string {
	line, err := s.out.ReadString('\n')
	if err != nil {
		panic(engineErr{"solver died: " + err.Error()})
	}
	return strings.TrimSpace(line)
}

// Check asks whether the conjunction of lits is satisfiable.
func (s *Solver) Check(lits []*Term) satResult {
	for _, l := range lits {
		s.define(l)
	}
	var sb strings.Builder
	sb.WriteString("(check-sat-assuming (")
	for _, l := range lits {
		if l.isC {
			if l.cu == 0 {
				return rUnsat
			}
			continue
		}
		if l.op == "not" {
			sb.WriteString("(not " + l.args[0].name() + ") ")
		} else {
			sb.WriteString(l.name() + " ")
		}
	}
	sb.WriteString("))")
	t0 := time.Now()
	s.send(sb.String())
	res := rUnknown
	for {
		line := s.readLine()
		if line == "" {
			continue
		}
		switch {
		case line == "sat":
			res = rSat
		case line == "unsat":
			res = rUnsat
		case line == "unknown":
			res = rUnknown
		case strings.HasPrefix(line, "(error"):
			panic(engineErr{"solver error: " + line + " on " + sb.String()})
		default:
			panic(engineErr{"unexpected solver output: " + line})
		}
		break
	}
	s.lastLits = append(s.lastLits[:0], lits...)
	s.lastByFallback = false
	if res == rUnknown {
		// second opinion from other back ends (one-shot, cone of influence only)
		if r2, _ := s.oneShot(lits, nil); r2 != rUnknown {
			res = r2
			s.lastByFallback = true
			s.stats.Fallback++
		}
	}
	s.stats.Queries++
	s.stats.Seconds += time.Since(t0).Seconds()
	switch res {
	case rSat:
		s.stats.Sat++
	case rUnsat:
		s.stats.Unsat++
	default:
		s.stats.Unknown++
	}
	return res
}

// Values returns model values (after a sat Check) for the given terms as
// uint64 bit patterns (bool: 0/1; FP: IEEE bits).
func (s *Solver) Values(terms []*Term) []uint64 {
	if s.lastByFallback {
		var want []*Term
		for _, t := range terms {
			if !t.isC {
				want = append(want, t)
			}
		}
		r, vals := s.oneShot(s.lastLits, want)
		if r != rSat {
			panic(engineErr{"fallback solver could not produce a model"})
		}
		res := make([]uint64, len(terms))
		k := 0
		for i, t := range terms {
			if t.isC {
				res[i] = t.cu
			} else {
				res[i] = vals[k]
				k++
			}
		}
		return res
	}
	res := make([]uint64, len(terms))
	// defining a term after check-sat invalidates the model: define first, re-check
	fresh := false
	for _, t := range terms {
		if !t.isC && !t.sent {
			s.define(t)
			fresh = true
		}
	}
	if fresh {
		if r := s.Check(append([]*Term(nil), s.lastLits...)); r != rSat {
			panic(engineErr{"solver changed its answer while re-checking for a model"})
		}
		if s.lastByFallback {
			return s.Values(terms)
		}
	}
	for i, t := range terms {
		if t.isC {
			res[i] = t.cu
			continue
		}
		s.define(t)
		q := t.name()
		if t.sort.k == sFP64 || t.sort.k == sFP32 {
			q = "(fp.to_ieee_bv " + t.name() + ")"
		}
		s.send("(get-value (" + q + "))")
		txt := s.readSexp()
		res[i] = parseModelValue(txt, t.sort)
		if t.sort.k == sFP64 || t.sort.k == sFP32 {
			// fp.to_ieee_bv is unspecified on NaN (z3 answers with an arbitrary pattern): ask
			s.send("(get-value ((fp.isNaN " + t.name() + ")))")
			if strings.Contains(s.readSexp(), "true") {
				if t.sort.k == sFP64 {
					res[i] = 0x7ff8000000000001
				} else {
					res[i] = 0x7fc00001
				}
			}
		}
	}
	return res
}

// readSexp reads one balanced s-expression (possibly multi-line).
func (s *Solver) readSexp() string {
	var sb strings.Builder
	depth := 0
	started := false
	for {
		line := s.readLine()
		if strings.HasPrefix(line, "(error") {
			panic(engineErr{"solver error: " + line})
		}
		sb.WriteString(line + " ")
		for _, c := range line {
			if c == '(' {
				depth++
				started = true
			} else if c == ')' {
				depth--
			}
		}
		if started && depth <= 0 {
			return sb.String()
		}
	}
}

func parseModelValue(txt string, so Sort) uint64 {
	// forms: ((name #x..)) ((name #b..)) ((name true)) ((name (_ bv5 8)))
	txt = strings.TrimSpace(txt)
	if i := strings.LastIndex(txt, "#x"); i >= 0 {
		j := i + 2
		k := j
		for k < len(txt) && strings.ContainsRune("0123456789abcdefABCDEF", rune(txt[k])) {
			k++
		}
		v, _ := strconv.ParseUint(txt[j:k], 16, 64)
		return v
	}
	if i := strings.LastIndex(txt, "#b"); i >= 0 {
		j := i + 2
		k := j
		for k < len(txt) && (txt[k] == '0' || txt[k] == '1') {
			k++
		}
		v, _ := strconv.ParseUint(txt[j:k], 2, 64)
		return v
	}
	if i := strings.LastIndex(txt, "(_ bv"); i >= 0 {
		j := i + 5
		k := j
		for k < len(txt) && txt[k] >= '0' && txt[k] <= '9' {
			k++
		}
		v, _ := strconv.ParseUint(txt[j:k], 10, 64)
		return v
	}
	if strings.Contains(txt, " true)") {
		return 1
	}
	if strings.Contains(txt, " false)") {
		return 0
	}
	panic(engineErr{"cannot parse model value: " + txt})
}
