package main

// C05-O2 — wiring: a program's routes registered through the real setupRoutes
// (compiled mode and forced interpreter mode) and dispatched through the real
// createHandler: every request is answered by the route the specification
// picks (most specific pattern of that method, earliest on ties) with the path
// parameters bound to the corresponding segments, or by 404 when none matches.

import (
	"net/http"
	"net/url"
	"strconv"
	"strings"

	"github.com/glyphlang/glyph/internal/zzverif"
)

type zzRouteDecl struct {
	method  string
	pattern string
}

var zzSegs = []string{"a", "b", ":p", ":q"}

// zzSpecMatch: declarative matching of one pattern against a path.
func zzSpecMatch(pattern, path string) (map[string]string, int, bool) {
	split := func(s string) []string {
		var out []string
		for _, x := range strings.Split(s, "/") {
			if x != "" {
				out = append(out, x)
			}
		}
		return out
	}
	ps, rs := split(pattern), split(path)
	if len(ps) != len(rs) {
		return nil, 0, false
	}
	params := map[string]string{}
	n := 0
	for i := range ps {
		if strings.HasPrefix(ps[i], ":") {
			params[ps[i][1:]] = rs[i]
			n++
		} else if ps[i] != rs[i] {
			return nil, 0, false
		}
	}
	return params, n, true
}

func zzWiring(interpreted bool, nroutes int) {
	// three routes: method x two-segment pattern, each returning its own marker
	// and the parameters it saw
	var decls []zzRouteDecl
	src := ""
	for k := 0; k < nroutes; k++ {
		m := []string{"GET", "POST"}[zzverif.Choice("method", 2)]
		s1 := zzSegs[zzverif.Choice("seg1", 2)]     // a, b
		s2 := zzSegs[zzverif.Choice("seg2", 4)]     // a, b, :p, :q
		pat := "/" + s1 + "/" + s2
		// the same method and pattern declared twice is equal specificity too: the earlier declaration answers
		decls = append(decls, zzRouteDecl{m, pat})
		ret := "{k: " + strconv.Itoa(k)
		if strings.HasPrefix(s2, ":") {
			ret += ", v: " + s2[1:]
		}
		ret += "}"
		src += "@ " + m + " " + pat + " {\n  > " + ret + "\n}\n\n"
	}
	module, err := parseSource(src)
	if err != nil {
		panic("harness program does not parse: " + err.Error())
	}
	_, _, _, router, err := setupRoutes(module, "/app/main.glyph", interpreted)
	if err != nil {
		zzverif.Fail("setupRoutes rejected a valid program")
	}
	h := createHandler(router)

	// the request
	rm := []string{"GET", "POST"}[zzverif.Choice("reqMethod", 2)]
	r1 := []string{"a", "b", "c"}[zzverif.Choice("req1", 3)]
	r2 := []string{"a", "b", "zz"}[zzverif.Choice("req2", 3)]
	path := "/" + r1 + "/" + r2
	if zzverif.Bool("trailingSlash") {
		path += "/"
	}
	rec := &zzRec{}
	before := zzverif.JSONCount()
	h(rec, &http.Request{Method: rm, Header: http.Header{}, URL: &url.URL{Path: path}, RemoteAddr: "10.0.0.1:1"})
	var body interface{}
	if zzverif.Symbolic() {
		if zzverif.JSONCount() > before {
			body = zzNorm(zzverif.JSONValue(zzverif.JSONCount() - 1))
		}
	} else {
		body = zzNorm(zzLastJSON(rec))
	}

	// the specification's winner
	best, bestParams, bestN := -1, map[string]string(nil), 0
	for k, d := range decls {
		if d.method != rm {
			continue
		}
		if params, n, ok := zzSpecMatch(d.pattern, path); ok && (best < 0 || n < bestN) {
			best, bestParams, bestN = k, params, n
		}
	}
	mode := "compiled"
	if interpreted {
		mode = "interpreted"
	}
	if best < 0 {
		zzverif.Assert(rec.status == 404, mode+": request without a matching route is not answered 404")
		zzverif.Reach("wiring")
		return
	}
	zzverif.Assert(rec.status == 200, mode+": matching request is not answered 200")
	obj, ok := body.(map[string]interface{})
	zzverif.Assert(ok && obj["k"] == interface{}(int64(best)), mode+": request answered by another route than the declared one")
	for _, v := range bestParams {
		zzverif.Assert(obj["v"] == interface{}(v), mode+": path parameter not bound to the request segment")
	}
	zzverif.Reach("wiring")
}

func VerifC05_WiringCompiled()     { zzWiring(false, 2) }
func VerifC05_WiringInterpreted()  { zzWiring(true, 2) }
func VerifC05_WiringCompiled3()    { zzWiring(false, 3) }
func VerifC05_WiringInterpreted3() { zzWiring(true, 3) }

// raw request paths (empty segments, blanks, trailing slashes): whatever the
// router makes of the path, both modes answer alike and never with a 500
func VerifC05_WiringRawPath() {
	module, err := parseSource("@ GET /a/:p {\n  > {v: p}\n}\n\n@ GET /a/b/c {\n  > {k: 1}\n}\n")
	if err != nil {
		panic("harness program does not parse: " + err.Error())
	}
	path := "/" + zzverif.StringFrom("path", 5, "/ab c")
	if zzverif.Bool("percent") {
		// an already decoded path that still contains percent signs (the client sent %25..)
		path = "/a/" + zzverif.StringFrom("seg", 4, "%2541a")
	}
	ask := func(interpreted bool) (int, interface{}) {
		_, _, _, router, err := setupRoutes(module, "/app/main.glyph", interpreted)
		if err != nil {
			zzverif.Fail("setupRoutes rejected a valid program")
		}
		rec := &zzRec{}
		before := zzverif.JSONCount()
		createHandler(router)(rec, &http.Request{Method: "GET", Header: http.Header{}, URL: &url.URL{Path: path}, RemoteAddr: "10.0.0.1:1"})
		var body interface{}
		if zzverif.Symbolic() {
			if zzverif.JSONCount() > before {
				body = zzNorm(zzverif.JSONValue(zzverif.JSONCount() - 1))
			}
		} else {
			body = zzNorm(zzLastJSON(rec))
		}
		return rec.status, body
	}
	cs, cb := ask(false)
	is, ib := ask(true)
	zzverif.Assert(cs == 200 || cs == 404, "raw path: compiled mode answers neither 200 nor 404")
	zzverif.Assert(is == 200 || is == 404, "raw path: interpreted mode answers neither 200 nor 404")
	zzverif.Assert(cs == is, "raw path: the two modes disagree on whether the request matches")
	if cs == 200 && is == 200 {
		zzverif.Assert(zzSameJSON(cb, ib), "raw path: the two modes bind different parameters")
	}
	zzverif.Reach("rawpath")
}
