#!/usr/bin/env python3
# Development-time helper (never run by a check). Confirms a seeded change
# delivered by a sub-agent in a scratch worktree of /repo's HEAD:
#   demo passes on the clean tree, patch applies, tree builds, demo fails with
#   the patch, full suite passes with the patch.
# On success copies patch.diff, the demo and a meta.json to /verif/seeded/<id>/.
# usage: seed_verify.py <property> <variant> <delivery dir>
import json, os, re, shutil, subprocess, sys, time

prop, var, src = sys.argv[1], sys.argv[2], sys.argv[3]
sid = "%s-%s" % (prop, var)
V = os.path.dirname(os.path.dirname(os.path.abspath(__file__)))
wt = "/tmp/sv/" + sid
env = dict(os.environ, GOFLAGS="-mod=mod", GOPROXY="off")


def sh(cmd, cwd=None, timeout=1800):
    t0 = time.time()
    try:
        p = subprocess.run(cmd, shell=True, cwd=cwd, env=env, stdout=subprocess.PIPE, stderr=subprocess.STDOUT, timeout=timeout)
        return p.returncode, p.stdout.decode(errors="replace"), time.time() - t0
    except subprocess.TimeoutExpired as e:
        return 124, (e.stdout or b"").decode(errors="replace") + "\nTIMEOUT", time.time() - t0


txt = open(os.path.join(src, "demo_path.txt")).read()
dests = re.findall(r"((?:cmd|pkg|internal|tests?)/[\w/.\-]+\.go)", txt)
demos = [f for f in os.listdir(src) if f.endswith(".go")]
place = {}
for f in demos:
    cand = [d for d in dests if os.path.basename(d) == f]
    if not cand:
        print("cannot place", f, dests)
        sys.exit(2)
    place[f] = cand[0]
m = re.search(r"(go test [^\n]*)", txt)
runcmd = m.group(1).strip()
res = {"id": sid, "property": prop, "demo_files": place, "demo_cmd": runcmd}

subprocess.run("git -C /repo worktree remove --force %s 2>/dev/null; rm -rf %s; mkdir -p /tmp/sv" % (wt, wt), shell=True)
rc, out, _ = sh("git -C /repo worktree add --detach %s HEAD" % wt)
if rc != 0:
    print(out)
    sys.exit(2)
ok = False
try:
    for f, d in place.items():
        os.makedirs(os.path.dirname(os.path.join(wt, d)), exist_ok=True)
        shutil.copy(os.path.join(src, f), os.path.join(wt, d))
    rc, out, dt = sh(runcmd, cwd=wt, timeout=900)
    res["demo_clean"] = {"rc": rc, "s": round(dt, 1), "tail": out[-600:]}
    rc2, out2, _ = sh("git apply %s" % os.path.join(src, "patch.diff"), cwd=wt)
    res["apply"] = {"rc": rc2, "out": out2[-300:]}
    if rc2 == 0:
        rc3, out3, dt3 = sh("go build ./...", cwd=wt)
        res["build"] = {"rc": rc3, "tail": out3[-300:]}
        rc4, out4, dt4 = sh(runcmd, cwd=wt, timeout=900)
        res["demo_patched"] = {"rc": rc4, "s": round(dt4, 1), "tail": out4[-1500:]}
        for f, d in place.items():
            os.remove(os.path.join(wt, d))
        rc5, out5, dt5 = sh("go test -vet=off -count=1 -timeout 25m ./...", cwd=wt, timeout=2400)
        bad = [l for l in out5.splitlines() if not l.startswith("ok") and "no test files" not in l]
        res["suite_patched"] = {"rc": rc5, "s": round(dt5, 1), "not_ok": bad[-15:]}
        if rc5 != 0:
            # wall-clock tests of the repository fail now and then on a loaded machine:
            # a package that fails in the full run is re-run alone (up to 3 times) and
            # counts as passing if it passes then
            failed = sorted(set(re.findall(r"^FAIL\t(\S+)", out5, re.M)))
            rerun = {}
            allok = bool(failed)
            for pkg in failed:
                okp = False
                for _ in range(3):
                    r, o, _t = sh("go test -vet=off -count=1 -timeout 25m " + pkg, cwd=wt, timeout=2400)
                    if r == 0:
                        okp = True
                        break
                rerun[pkg] = okp
                allok = allok and okp
            res["suite_patched"]["rerun_alone"] = rerun
            if allok:
                rc5 = 0
                res["suite_patched"]["rc"] = 0
                res["suite_patched"]["note"] = "packages that failed in the full run passed when re-run alone (timing tests under load)"
        ok = res["demo_clean"]["rc"] == 0 and rc3 == 0 and rc4 != 0 and rc5 == 0
finally:
    subprocess.run("git -C /repo worktree remove --force %s; rm -rf %s" % (wt, wt), shell=True)
res["confirmed"] = ok
print(json.dumps(res, indent=1)[:3000])
if ok:
    dst = os.path.join(V, "seeded", sid)
    os.makedirs(dst, exist_ok=True)
    shutil.copy(os.path.join(src, "patch.diff"), dst)
    for f in demos:
        shutil.copy(os.path.join(src, f), dst)
    if os.path.exists(os.path.join(src, "notes.md")):
        shutil.copy(os.path.join(src, "notes.md"), dst)
    meta = {"id": sid, "property": prop, "breaks": prop,
            "needs_to_manifest": "see notes.md (sub-agent's description)",
            "demo": {"files": place, "cmd": runcmd},
            "confirmed_by": {"where": "scratch worktree of /repo HEAD under /tmp/sv (removed afterwards)",
                             "demo_on_clean_tree": "pass (exit %d)" % res["demo_clean"]["rc"],
                             "build_with_change": "ok",
                             "demo_with_change": "fail (exit %d)" % res["demo_patched"]["rc"],
                             "full_suite_with_change": "pass (go test -vet=off -count=1 ./..., %ss)" % res["suite_patched"]["s"]},
            "repo_head": subprocess.run("git -C /repo rev-parse --short HEAD", shell=True, stdout=subprocess.PIPE).stdout.decode().strip(),
            "detected_by": "pending"}
    json.dump(meta, open(os.path.join(dst, "meta.json"), "w"), indent=1)
sys.exit(0 if ok else 1)
