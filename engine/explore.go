package main

import (
	"fmt"
	"regexp"
	"go/token"
	"go/types"
	"os"
	"runtime"
	"sort"
	"strings"
	"sync"
	"time"

	"golang.org/x/tools/go/ssa"
)

type harnessCfg struct {
	Name          string `json:"name"`     // function name in Pkg
	Pkg           string `json:"pkg"`      // import path
	MaxSteps      int64  `json:"max_steps"`
	MaxDepth      int    `json:"max_depth"`
	MaxAlloc      int64  `json:"max_alloc"` // bytes
	MaxConcretize int    `json:"max_concretize"`
	MaxPaths      int    `json:"max_paths"`
	Preempt       int    `json:"preempt"`
	Delays        int    `json:"delays"` // delay bound (round-robin scheduler with at most this many delays); 0 = pre-emption-bounded mode
	RaceMonitor   bool   `json:"race_monitor"`
	NondetMaps    int    `json:"nondet_maps"` // explore every iteration order of maps with up to this many entries (0 = insertion order)
	Twin          bool   `json:"twin"` // vacuity twin: must yield a violation
	Tier          string `json:"tier"` // "", "quick", "thorough": run only in that tier (""=both)
	Scale         []struct {
		Pkg  string `json:"pkg"`  // instead of func: every function of this package, constants of type Type only
		Type string `json:"type"` // e.g. "int64" (with pkg)
		Func string `json:"func"`
		From int64  `json:"from"`
		To   int64  `json:"to"`
	} `json:"scale"`
	Witnesses int    `json:"witnesses"`
	Bounds    string `json:"bounds"` // human-readable statement of bounds
	TimeoutS  int    `json:"timeout_s"`
}

func (c *harnessCfg) defaults() {
	if c.MaxSteps == 0 {
		c.MaxSteps = 3_000_000
	}
	if c.MaxDepth == 0 {
		c.MaxDepth = 2000
	}
	if c.MaxAlloc == 0 {
		c.MaxAlloc = 64 << 20
	}
	if c.MaxConcretize == 0 {
		c.MaxConcretize = 300
	}
	if c.MaxPaths == 0 {
		c.MaxPaths = 200000
	}
	if c.Witnesses == 0 {
		c.Witnesses = 6
	}
	if c.TimeoutS == 0 {
		c.TimeoutS = 1500
	}
}

type witness struct {
	Harness string   `json:"harness"`
	Vector  []VecEnt `json:"vector"`
	Expect  string   `json:"expect"`
	Obs     []string `json:"obs,omitempty"`
}

type harnessResult struct {
	Name         string
	Paths        int // completed paths (reached end or ended in violation)
	Pruned       int // ended by assume
	Decisions    int
	Violations   map[string]Violation
	Inconclusive []string
	Reached      map[string]int
	Asserts      map[string]int
	Witnesses    []witness
	Notes        map[string]bool
	MaxStepsSeen int64
	Truncated    bool
	Wall         float64
	Unknowns     int
}

type results struct {
	mu    sync.Mutex
	byH   map[string]*harnessResult
	funcs map[string]int
	stubs map[string]int
	solver SolverStats
}

func newResults() *results {
	return &results{byH: map[string]*harnessResult{}, funcs: map[string]int{}, stubs: map[string]int{}}
}

func (r *results) h(name string) *harnessResult {
	hr := r.byH[name]
	if hr == nil {
		hr = &harnessResult{Name: name, Violations: map[string]Violation{}, Reached: map[string]int{}, Asserts: map[string]int{}, Notes: map[string]bool{}}
		r.byH[name] = hr
	}
	return hr
}

func (r *results) addViolation(v Violation) {
	r.mu.Lock()
	defer r.mu.Unlock()
	hr := r.h(v.Harness)
	if old, ok := hr.Violations[v.Key]; ok {
		// keep the one with the shorter vector (simpler replay)
		if len(old.Vector) <= len(v.Vector) {
			return
		}
	}
	hr.Violations[v.Key] = v
}

var reOpaqueID = regexp.MustCompile(`#[0-9]+`)

func (r *results) addInconclusive(h, msg string) {
	msg = reOpaqueID.ReplaceAllString(msg, "#N")
	r.mu.Lock()
	defer r.mu.Unlock()
	hr := r.h(h)
	for _, m := range hr.Inconclusive {
		if m == msg {
			return
		}
	}
	if len(hr.Inconclusive) < 12 {
		hr.Inconclusive = append(hr.Inconclusive, msg)
	}
}

func (r *results) assertSeen(h, key string) {
	r.mu.Lock()
	r.h(h).Asserts[key]++
	r.mu.Unlock()
}

// ---------------------------------------------------------------------

type program struct {
	prog  *ssa.Program
	pkgs  map[string]*ssa.Package
	sizes types.Sizes
}

func (i *interpreter) resetPath(prefix []decision) {
	i.path = &pathCtx{prefix: prefix, reached: map[string]bool{}}
	i.journal = i.journal[:0]
	i.journaling = true
	i.steps = 0
	i.side = map[any]any{}
	i.sched = newScheduler(i)
	i.clock = nil
	i.methodLookups = nil
	i.methodCalls = nil
}

func newInterpreter(p *program, res *results) *interpreter {
	i := &interpreter{
		prog:      p.prog,
		globals:   make(map[*ssa.Global]*value),
		inited:    map[*ssa.Package]bool{},
		sizes:     p.sizes,
		funcsSeen: map[*ssa.Function]int{},
		stubsHit:  map[string]int{},
		env:       map[string]value{},
		results:   res,
		maxSteps:  1 << 62,
	}
	i.ts = newTermStore()
	runtimePkg := i.prog.ImportedPackage("runtime")
	if runtimePkg != nil {
		i.runtimeErrorString = runtimePkg.Type("errorString").Object().Type()
	}
	i.rtypeMethods = sharedRtypeMethods
	i.errorMethods = sharedErrorMethods
	i.reflectPackage = sharedReflectPackage
	i.cfg = &harnessCfg{}
	i.cfg.defaults()
	i.sched = newScheduler(i)
	i.side = map[any]any{}
	return i
}

// runPath executes one path of harness fn under the given decision prefix.
func (i *interpreter) runPath(fn *ssa.Function, prefix []decision) (alts [][]decision) {
	i.resetPath(prefix)
	i.solver.BeginPath()
	defer i.solver.EndPath()
	c := i.path
	hname := i.cfg.Name
	res := i.results
	outcome := "ok"
	func() {
		defer func() {
			p := recover()
			if p == nil {
				return
			}
			if pb, ok := p.(*panicBox); ok {
				// target panic escaped the harness entry: implicit assertion
				msg := describePanic(pb.p)
				key := "panic:" + pb.origin + ":" + panicClass(msg)
				i.violationWith(nil, "panic", key, msg+" (raised in "+pb.origin+")")
				outcome = "violation"
				return
			}
			switch p := p.(type) {
			case pathAbort:
				switch p.kind {
				case "assume":
					outcome = "pruned"
				case "violation":
					outcome = "violation"
				case "steplimit", "depthlimit":
					if c.obligation != "" && p.kind == "steplimit" {
						i.violationWith(nil, "hang", "hang:"+c.obligation, "termination obligation "+c.obligation+" not met: "+p.msg)
						outcome = "violation"
					} else {
						res.addInconclusive(hname, "bound too small: "+p.msg)
						outcome = "inconclusive"
					}
				default:
					outcome = p.kind
				}
			case deadlockAbort:
				i.violationWith(nil, "deadlock", "deadlock:"+deadlockClass(p.desc), p.desc)
				outcome = "violation"
			case goroutinePanic:
				inner := p.p
				origin := p.at
				if pb, ok := inner.(*panicBox); ok {
					inner = pb.p
					origin = pb.origin
				}
				msg := describePanic(inner)
				i.violationWith(nil, "panic", "panic:"+origin+":"+panicClass(msg), msg+" (in goroutine started at "+p.at+")")
				outcome = "violation"
			case engineErr:
				res.addInconclusive(hname, p.msg)
				outcome = "inconclusive"
			case threadKill:
				outcome = "killed"
			default:
				if re, ok := p.(runtime.Error); ok {
					buf := make([]byte, 4096)
					n := runtime.Stack(buf, false)
					res.addInconclusive(hname, "engine fault: "+re.Error()+"\n"+string(buf[:n]))
				} else {
					res.addInconclusive(hname, fmt.Sprintf("engine fault: %v", p))
				}
				outcome = "inconclusive"
			}
		}()
		mainFrame := &frame{i: i, thr: i.sched.threads[0]}
		call(i, mainFrame, token.NoPos, fn, nil)
		// let remaining goroutines run to quiescence
		i.sched.yield(mainFrame)
	}()
	i.sched.killAll()
	i.journaling = false

	res.mu.Lock()
	hr := res.h(hname)
	hr.Decisions += len(c.taken) - len(prefix)
	if i.steps > hr.MaxStepsSeen {
		hr.MaxStepsSeen = i.steps
	}
	hr.Unknowns += c.unknown
	for _, n := range c.notes {
		hr.Notes[n] = true
	}
	switch outcome {
	case "ok", "violation":
		hr.Paths++
		for k := range c.reached {
			hr.Reached[k]++
		}
	case "pruned":
		hr.Pruned++
	}
	wantWitness := outcome == "ok" && len(hr.Witnesses) < i.cfg.Witnesses && (hr.Paths <= 2 || hr.Paths%17 == 0)
	res.mu.Unlock()
	if wantWitness && len(c.inputs) > 0 {
		func() {
			defer func() { recover() }()
			if i.check() == rSat {
				w := witness{Harness: hname, Vector: i.vector(), Expect: "ok", Obs: c.observations}
				res.mu.Lock()
				hr.Witnesses = append(hr.Witnesses, w)
				res.mu.Unlock()
			}
		}()
	}
	alts = c.newAlts
	i.undoAll()
	i.path = nil
	return alts
}

func panicClass(msg string) string {
	// strip digits and addresses so that the class is stable
	var sb strings.Builder
	for _, c := range msg {
		if c >= '0' && c <= '9' {
			continue
		}
		sb.WriteRune(c)
	}
	s := sb.String()
	if len(s) > 80 {
		s = s[:80]
	}
	return s
}

func deadlockClass(desc string) string {
	var parts []string
	for _, p := range strings.Split(desc, ";") {
		if k := strings.Index(p, "blocked on "); k >= 0 {
			parts = append(parts, strings.TrimSpace(p[k+11:]))
		}
	}
	sort.Strings(parts)
	return strings.Join(parts, ",")
}

// exploreHarness runs all paths of one harness with nworkers workers.
func exploreHarness(p *program, res *results, cfg *harnessCfg, nworkers int, workers []*interpreter) {
	pkg := p.pkgs[cfg.Pkg]
	if pkg == nil {
		res.addInconclusive(cfg.Name, "package not loaded: "+cfg.Pkg)
		return
	}
	fn := pkg.Func(cfg.Name)
	if fn == nil {
		res.addInconclusive(cfg.Name, "harness function not found: "+cfg.Name)
		return
	}
	t0 := time.Now()
	deadline := t0.Add(time.Duration(cfg.TimeoutS) * time.Second)
	var mu sync.Mutex
	cond := sync.NewCond(&mu)
	stack := [][]decision{nil}
	active := 0
	started := 0
	truncated := false
	var wg sync.WaitGroup
	for w := 0; w < nworkers; w++ {
		wg.Add(1)
		go func(i *interpreter) {
			defer wg.Done()
			i.cfg = cfg
			i.maxSteps = cfg.MaxSteps
			i.applyScale(cfg)
			defer i.unapplyScale(cfg)
			for {
				mu.Lock()
				for len(stack) == 0 && active > 0 {
					cond.Wait()
				}
				if len(stack) == 0 && active == 0 {
					mu.Unlock()
					cond.Broadcast()
					return
				}
				if started >= cfg.MaxPaths || time.Now().After(deadline) {
					truncated = true
					stack = nil
					mu.Unlock()
					cond.Broadcast()
					if active == 0 {
						return
					}
					// wait for others to finish
					mu.Lock()
					for active > 0 {
						cond.Wait()
					}
					mu.Unlock()
					return
				}
				pre := stack[len(stack)-1]
				stack = stack[:len(stack)-1]
				active++
				started++
				mu.Unlock()

				alts := i.runPath(fn, pre)
				i.solver.MaybeRestart()

				mu.Lock()
				if !truncated {
					stack = append(stack, alts...)
				}
				active--
				mu.Unlock()
				cond.Broadcast()
			}
		}(workers[w])
	}
	wg.Wait()
	res.mu.Lock()
	hr := res.h(cfg.Name)
	hr.Wall = time.Since(t0).Seconds()
	hr.Truncated = truncated
	if truncated {
		hr.Inconclusive = append(hr.Inconclusive, fmt.Sprintf("exploration truncated after %d paths / %ds: bound too large", started, cfg.TimeoutS))
	}
	res.mu.Unlock()
	if os.Getenv("VERIF_VERBOSE") != "" {
		fmt.Fprintf(os.Stderr, "  harness %s: %d paths, %d pruned, %d violations, %.1fs\n", cfg.Name, hr.Paths, hr.Pruned, len(hr.Violations), hr.Wall)
	}
}
