package zzc02

// C12 — programs reach providers only through the allow-list, and no argument
// shape makes a provider call crash the runtime.

import (
	"github.com/glyphlang/glyph/internal/zzverif"
	"github.com/glyphlang/glyph/pkg/ast"
	"github.com/glyphlang/glyph/pkg/interpreter"
	"github.com/glyphlang/glyph/pkg/redis"
	"github.com/glyphlang/glyph/pkg/mongodb"
	"github.com/glyphlang/glyph/pkg/parser"
)

// zzProbe has exported methods on and off the allow-list. Off-list methods
// fail the harness when they are ever invoked.
type zzProbe struct{ calls int }

func (p *zzProbe) Get(id int64) (interface{}, error)  { p.calls++; return id, nil }
func (p *zzProbe) Set(k string, v interface{}) error  { p.calls++; return nil }
func (p *zzProbe) All() []interface{}                 { p.calls++; return nil }
func (p *zzProbe) Del(keys ...string) int64           { p.calls++; return int64(len(keys)) }
func (p *zzProbe) Table(name string) interface{}      { p.calls++; return &zzProbe{} }
func (p *zzProbe) Zap() string                        { zzverif.Fail("off-list-method-invoked Zap"); return "" }
func (p *zzProbe) Gxt(id int64) interface{}           { zzverif.Fail("off-list-method-invoked Gxt"); return nil }
func (p *zzProbe) Sxt(k string, v interface{}) error  { zzverif.Fail("off-list-method-invoked Sxt"); return nil }
func (p *zzProbe) Exec(q string) error                { zzverif.Fail("off-list-method-invoked Exec"); return nil }

// methods whose standing is read from the allow-list at the moment they run
var zzUseSnapshot bool

func zzInvoked(name string) {
	allowed := interpreter.ZZAllowedExact(name)
	if zzUseSnapshot {
		allowed = interpreter.ZZAllowedAtStart(name)
	}
	if !allowed {
		zzverif.Fail("off-list-method-invoked " + name)
	}
}
func (p *zzProbe) Close() error                        { zzInvoked("Close"); return nil }
func (p *zzProbe) Query(q string) (interface{}, error) { zzInvoked("Query"); return nil, nil }
func (p *zzProbe) Raw(q string) interface{}            { zzInvoked("Raw"); return nil }
func (p *zzProbe) Begin() error                        { zzInvoked("Begin"); return nil }
func (p *zzProbe) Drop(t string) error                 { zzInvoked("Drop"); return nil }
func (p *zzProbe) Ping() string                        { zzInvoked("Ping"); p.calls++; return "pong" }

// a variadic method with fixed leading parameters (the shape of redis LPush)
func (p *zzProbe) LPush(key string, vals ...interface{}) int64 { p.calls++; return int64(len(vals)) }
func (p *zzProbe) HSet(key, field string, more ...interface{}) int64 { p.calls++; return 1 }

// methods with typed slice / map parameters (the shape of InsertMany, Aggregate)
func (p *zzProbe) InsertMany(docs []map[string]interface{}) int64 { p.calls++; return int64(len(docs)) }
func (p *zzProbe) Aggregate(stages []interface{}) []interface{}   { p.calls++; return nil }
func (p *zzProbe) Purge(scope string) bool                         { zzInvoked("Purge"); return true }

// bytes that spell the probe's method names in any case, plus the UTF-8 bytes
// of U+212A (Kelvin sign, which case-folds to k) and U+017F (long s -> s)
const zzNameAlphabet = "gGeEtTsSzZaApPxX\xe2\x84\xaa\xc5\xbf"

// O1a: the reflection entry points with a symbolic method name.
func zzAllowListDirect(n int) {
	name := zzverif.StringFrom("method", n, zzNameAlphabet)
	p := &zzProbe{}
	has := interpreter.HasMethod(p, name)
	_ = has
	var args []interface{}
	switch zzverif.Choice("nargs", 3) {
	case 1:
		args = []interface{}{int64(1)}
	case 2:
		args = []interface{}{"k", int64(1)}
	}
	interpreter.CallMethod(p, name, args...)
	zzverif.Reach("allowlist-direct")
}

func VerifC12_AllowListDirect3() { zzAllowListDirect(3) }
func VerifC12_AllowListDirect4() { zzAllowListDirect(4) }

// O1b: every call form of the language with a symbolic method name.
func zzAllowListForms(n int) {
	name := zzverif.StringFrom("method", n, zzNameAlphabet)
	p := &zzProbe{}
	in := interpreter.NewInterpreter()
	env := interpreter.NewEnvironment()
	env.Define("p", p)
	env.Define("o", map[string]interface{}{"inner": p})
	arg := ast.LiteralExpr{Value: ast.IntLiteral{Value: 1}}
	var e ast.Expr
	switch zzverif.Choice("form", 5) {
	case 0: // p.m(1)
		e = ast.FunctionCallExpr{Name: "p." + name, Args: []ast.Expr{arg}}
	case 1: // m(p, 1)  (free-function form)
		e = ast.FunctionCallExpr{Name: name, Args: []ast.Expr{ast.VariableExpr{Name: "p"}, arg}}
	case 2: // o.inner.m()
		e = ast.FunctionCallExpr{Name: "o.inner." + name}
	case 3: // p.t.m()  (nested path through Table)
		e = ast.FunctionCallExpr{Name: "p.t." + name}
	default: // field access p.m
		e = ast.FieldAccessExpr{Object: ast.VariableExpr{Name: "p"}, Field: name}
	}
	in.EvaluateExpression(e, env)
	zzverif.Reach("allowlist-forms")
}

func VerifC12_AllowListForms3() { zzAllowListForms(3) }

// O1c: names that are NOT granted (and their case variants), through every call form
var zzNamedSpellings = []string{"close", "Close", "CLOSE", "cLoSe", "query", "Query", "QUERY", "raw", "Raw", "begin", "BEGIN", "drop", "Drop", "exec", "EXEC", "ping", "PING", "zap"}

func VerifC12_NamedOffList() {
	name := zzNamedSpellings[zzverif.Choice("name", len(zzNamedSpellings))]
	p := &zzProbe{}
	in := interpreter.NewInterpreter()
	env := interpreter.NewEnvironment()
	env.Define("p", p)
	env.Define("o", map[string]interface{}{"inner": p})
	arg := ast.LiteralExpr{Value: ast.StringLiteral{Value: "x"}}
	switch zzverif.Choice("form", 7) {
	case 0:
		in.EvaluateExpression(ast.FunctionCallExpr{Name: "p." + name, Args: []ast.Expr{arg}}, env)
	case 1:
		in.EvaluateExpression(ast.FunctionCallExpr{Name: "p." + name}, env)
	case 2:
		in.EvaluateExpression(ast.FunctionCallExpr{Name: name, Args: []ast.Expr{ast.VariableExpr{Name: "p"}, arg}}, env)
	case 3:
		in.EvaluateExpression(ast.FunctionCallExpr{Name: name, Args: []ast.Expr{ast.VariableExpr{Name: "p"}}}, env)
	case 4:
		in.EvaluateExpression(ast.FunctionCallExpr{Name: "o.inner." + name}, env)
	case 5:
		in.EvaluateExpression(ast.FunctionCallExpr{Name: "p.t." + name, Args: []ast.Expr{arg}}, env)
	default:
		interpreter.HasMethod(p, name)
		interpreter.CallMethod(p, name)
		interpreter.CallMethod(p, name, "x")
	}
	zzverif.Reach("named")
}

// O2: no argument count, null or wrongly typed argument crashes a provider call.
func VerifC12_Arguments() {
	methods := []string{"Get", "Set", "All", "Del", "Table", "LPush", "HSet", "lpush", "hset", "InsertMany", "Aggregate"}
	m := methods[zzverif.Choice("method", len(methods))]
	n := zzverif.Choice("nargs", 4)
	var args []interface{}
	shape := ""
	for k := 0; k < n; k++ {
		switch zzverif.Choice("arg", 6) {
		case 0:
			args, shape = append(args, nil), shape+" null"
		case 1:
			args, shape = append(args, zzverif.Int64("int")), shape+" int"
		case 2:
			args, shape = append(args, zzverif.Float64("float")), shape+" float"
		case 3:
			args, shape = append(args, zzverif.StringFrom("str", 1, "ab")), shape+" str"
		case 4:
			switch zzverif.Choice("arr", 4) {
			case 0:
				args, shape = append(args, []interface{}{int64(1)}), shape+" arr"
			case 1:
				args, shape = append(args, []interface{}{nil}), shape+" arr-of-null"
			case 2:
				args, shape = append(args, []interface{}{map[string]interface{}{"k": int64(1)}, nil}), shape+" arr-obj-null"
			default:
				args, shape = append(args, []interface{}{map[string]interface{}{"k": int64(1)}}), shape+" arr-of-obj"
			}
		default:
			args, shape = append(args, map[string]interface{}{"k": int64(1)}), shape+" obj"
		}
	}
	func() {
		defer func() {
			if r := recover(); r != nil {
				zzverif.Fail("provider-call-panics " + m + "(" + shape + " )")
			}
		}()
		interpreter.CallMethod(&zzProbe{}, m, args...)
	}()
	zzverif.Reach("arguments")
}

// A program's own provider contract must not widen what programs may call on
// other providers: the allow-list as it was before the program was loaded is
// the reference.
func VerifC12_ContractDoesNotWidenAllowList() {
	interpreter.ZZSnapshotAllowList()
	zzUseSnapshot = true
	defer func() { zzUseSnapshot = false }()
	src := "provider Audit {\n  purge(scope: str!) -> bool\n  close() -> bool\n  zap(scope: str!) -> bool\n}\n\n@ GET /t {\n  > 1\n}\n"
	toks, err := parser.NewLexer(src).Tokenize()
	if err != nil {
		panic("harness program does not lex")
	}
	m, err := parser.NewParser(toks).Parse()
	if err != nil {
		panic("harness program does not parse: " + err.Error())
	}
	in := interpreter.NewInterpreter()
	if err := in.LoadModule(*m); err != nil {
		panic("harness program does not load: " + err.Error())
	}
	p := &zzProbe{}
	env := interpreter.NewEnvironment()
	env.Define("p", p)
	name := []string{"purge", "Purge", "close", "Close", "zap", "ZAP"}[zzverif.Choice("name", 6)]
	arg := ast.LiteralExpr{Value: ast.StringLiteral{Value: "x"}}
	switch zzverif.Choice("form", 4) {
	case 0:
		in.EvaluateExpression(ast.FunctionCallExpr{Name: "p." + name, Args: []ast.Expr{arg}}, env)
	case 1:
		in.EvaluateExpression(ast.FunctionCallExpr{Name: "p." + name}, env)
	case 2:
		in.EvaluateExpression(ast.FunctionCallExpr{Name: name, Args: []ast.Expr{ast.VariableExpr{Name: "p"}, arg}}, env)
	default:
		interpreter.CallMethod(p, name)
		interpreter.CallMethod(p, name, "x")
	}
	zzverif.Reach("contract")
}

func VerifC12_Twin() {
	name := zzverif.StringFrom("method", 3, "gGeEtT")
	p := &zzProbe{}
	interpreter.CallMethod(p, name, int64(1))
	zzverif.Assert(p.calls == 0, "twin-must-fail")
	zzverif.Reach("twin")
}

// The providers `glyph run` injects by default (the in-memory MongoDB and Redis
// mocks): every allow-listed operation called with nulls, scalars, arrays and
// objects in every argument position ends in a value or an error.
func VerifC12_MockProviderArguments() {
	mongoOps := []string{"FindOne", "Find", "InsertOne", "InsertMany", "UpdateOne", "UpdateMany", "DeleteOne", "DeleteMany", "CountDocuments", "Aggregate", "CreateIndex", "DropIndex"}
	redisOps := []string{"Get", "Set", "Del", "Exists", "Expire", "Ttl", "Incr", "Decr", "HGet", "HSet", "HDel", "HGetAll", "LPush", "RPush", "LPop", "LRange", "Keys"}
	var obj interface{}
	var m string
	if zzverif.Bool("redis") {
		obj, m = redis.NewMockHandler(), redisOps[zzverif.Choice("redis op", len(redisOps))]
	} else {
		obj, m = mongodb.NewMockHandler().Collection("c"), mongoOps[zzverif.Choice("mongo op", len(mongoOps))]
	}
	n := zzverif.Choice("nargs", 4)
	var args []interface{}
	shape := ""
	for k := 0; k < n; k++ {
		switch zzverif.Choice("arg", 6) {
		case 0:
			args, shape = append(args, nil), shape+" null"
		case 1:
			args, shape = append(args, int64(zzverif.Choice("int", 3))-1), shape+" int"
		case 2:
			args, shape = append(args, "k"), shape+" str"
		case 3:
			args, shape = append(args, []interface{}{nil, map[string]interface{}{"k": int64(1)}}), shape+" arr-null-obj"
		case 4:
			args, shape = append(args, map[string]interface{}{"k": nil, "$set": map[string]interface{}{"k": int64(2)}}), shape+" obj"
		default:
			args, shape = append(args, true), shape+" bool"
		}
	}
	func() {
		defer func() {
			if r := recover(); r != nil {
				zzverif.Fail("mock-provider-call-panics " + m + "(" + shape + " )")
			}
		}()
		interpreter.CallMethod(obj, m, args...)
	}()
	zzverif.Reach("mock-arguments")
}

// A provider type that shares its bare type name with the Redis and MongoDB
// mocks (redis.MockHandler, mongodb.MockHandler) but has its own method table:
// one granted method (Get) among 40 methods that are not granted. Whatever was
// called on another provider before, a name reaches only the method of that
// name on the object it is called on.
type MockHandler struct{ gets int }

func (p *MockHandler) Get(k string) (interface{}, error) { p.gets++; return k, nil }
func (p *MockHandler) Fa(k string) (interface{}, error) { zzverif.Fail("off-list-method-invoked Fa"); return nil, nil }
func (p *MockHandler) Ha(k string) (interface{}, error) { zzverif.Fail("off-list-method-invoked Ha"); return nil, nil }
func (p *MockHandler) Fb(k string) (interface{}, error) { zzverif.Fail("off-list-method-invoked Fb"); return nil, nil }
func (p *MockHandler) Hb(k string) (interface{}, error) { zzverif.Fail("off-list-method-invoked Hb"); return nil, nil }
func (p *MockHandler) Fc(k string) (interface{}, error) { zzverif.Fail("off-list-method-invoked Fc"); return nil, nil }
func (p *MockHandler) Hc(k string) (interface{}, error) { zzverif.Fail("off-list-method-invoked Hc"); return nil, nil }
func (p *MockHandler) Fd(k string) (interface{}, error) { zzverif.Fail("off-list-method-invoked Fd"); return nil, nil }
func (p *MockHandler) Hd(k string) (interface{}, error) { zzverif.Fail("off-list-method-invoked Hd"); return nil, nil }
func (p *MockHandler) Fe(k string) (interface{}, error) { zzverif.Fail("off-list-method-invoked Fe"); return nil, nil }
func (p *MockHandler) He(k string) (interface{}, error) { zzverif.Fail("off-list-method-invoked He"); return nil, nil }
func (p *MockHandler) Ff(k string) (interface{}, error) { zzverif.Fail("off-list-method-invoked Ff"); return nil, nil }
func (p *MockHandler) Hf(k string) (interface{}, error) { zzverif.Fail("off-list-method-invoked Hf"); return nil, nil }
func (p *MockHandler) Fg(k string) (interface{}, error) { zzverif.Fail("off-list-method-invoked Fg"); return nil, nil }
func (p *MockHandler) Hg(k string) (interface{}, error) { zzverif.Fail("off-list-method-invoked Hg"); return nil, nil }
func (p *MockHandler) Fh(k string) (interface{}, error) { zzverif.Fail("off-list-method-invoked Fh"); return nil, nil }
func (p *MockHandler) Hh(k string) (interface{}, error) { zzverif.Fail("off-list-method-invoked Hh"); return nil, nil }
func (p *MockHandler) Fi(k string) (interface{}, error) { zzverif.Fail("off-list-method-invoked Fi"); return nil, nil }
func (p *MockHandler) Hi(k string) (interface{}, error) { zzverif.Fail("off-list-method-invoked Hi"); return nil, nil }
func (p *MockHandler) Fj(k string) (interface{}, error) { zzverif.Fail("off-list-method-invoked Fj"); return nil, nil }
func (p *MockHandler) Hj(k string) (interface{}, error) { zzverif.Fail("off-list-method-invoked Hj"); return nil, nil }
func (p *MockHandler) Fk(k string) (interface{}, error) { zzverif.Fail("off-list-method-invoked Fk"); return nil, nil }
func (p *MockHandler) Hk(k string) (interface{}, error) { zzverif.Fail("off-list-method-invoked Hk"); return nil, nil }
func (p *MockHandler) Fl(k string) (interface{}, error) { zzverif.Fail("off-list-method-invoked Fl"); return nil, nil }
func (p *MockHandler) Hl(k string) (interface{}, error) { zzverif.Fail("off-list-method-invoked Hl"); return nil, nil }
func (p *MockHandler) Fm(k string) (interface{}, error) { zzverif.Fail("off-list-method-invoked Fm"); return nil, nil }
func (p *MockHandler) Hm(k string) (interface{}, error) { zzverif.Fail("off-list-method-invoked Hm"); return nil, nil }
func (p *MockHandler) Fn(k string) (interface{}, error) { zzverif.Fail("off-list-method-invoked Fn"); return nil, nil }
func (p *MockHandler) Hn(k string) (interface{}, error) { zzverif.Fail("off-list-method-invoked Hn"); return nil, nil }
func (p *MockHandler) Fo(k string) (interface{}, error) { zzverif.Fail("off-list-method-invoked Fo"); return nil, nil }
func (p *MockHandler) Ho(k string) (interface{}, error) { zzverif.Fail("off-list-method-invoked Ho"); return nil, nil }
func (p *MockHandler) Fp(k string) (interface{}, error) { zzverif.Fail("off-list-method-invoked Fp"); return nil, nil }
func (p *MockHandler) Hp(k string) (interface{}, error) { zzverif.Fail("off-list-method-invoked Hp"); return nil, nil }
func (p *MockHandler) Fq(k string) (interface{}, error) { zzverif.Fail("off-list-method-invoked Fq"); return nil, nil }
func (p *MockHandler) Hq(k string) (interface{}, error) { zzverif.Fail("off-list-method-invoked Hq"); return nil, nil }
func (p *MockHandler) Fr(k string) (interface{}, error) { zzverif.Fail("off-list-method-invoked Fr"); return nil, nil }
func (p *MockHandler) Hr(k string) (interface{}, error) { zzverif.Fail("off-list-method-invoked Hr"); return nil, nil }
func (p *MockHandler) Fs(k string) (interface{}, error) { zzverif.Fail("off-list-method-invoked Fs"); return nil, nil }
func (p *MockHandler) Hs(k string) (interface{}, error) { zzverif.Fail("off-list-method-invoked Hs"); return nil, nil }
func (p *MockHandler) Ft(k string) (interface{}, error) { zzverif.Fail("off-list-method-invoked Ft"); return nil, nil }
func (p *MockHandler) Ht(k string) (interface{}, error) { zzverif.Fail("off-list-method-invoked Ht"); return nil, nil }

func VerifC12_NameAfterOtherProvider() {
	names := []string{"Get", "get", "Ping", "Keys", "Del", "Exists", "Incr", "Ttl"}
	first := names[zzverif.Choice("first call", len(names))]
	second := names[zzverif.Choice("second call", 3)]
	r := redis.NewMockHandler()
	mine := &MockHandler{}
	guarded := func(what string, f func()) {
		defer func() {
			if rec := recover(); rec != nil {
				zzverif.Fail("provider-call-panics " + what)
			}
		}()
		f()
	}
	if zzverif.Bool("redis first") {
		guarded("redis."+first, func() { interpreter.CallMethod(r, first, "k") })
		var v interface{}
		var err error
		guarded("mine."+second+" after redis."+first, func() { v, err = interpreter.CallMethod(mine, second, "k") })
		if second == "Ping" {
			zzverif.Assert(err != nil && mine.gets == 0, "a name the provider has no method for reached a method after redis."+first)
		} else {
			zzverif.Assert(err == nil && v == interface{}("k") && mine.gets == 1, "mine."+second+" did not reach Get after redis."+first)
		}
	} else {
		guarded("mine."+second, func() { interpreter.CallMethod(mine, second, "k") })
		r.Set("k", "v")
		var v interface{}
		var err error
		guarded("redis.Get after mine."+second, func() { v, err = interpreter.CallMethod(r, "Get", "k") })
		zzverif.Assert(err == nil && v == interface{}("v"), "redis.Get did not reach Get after mine."+second)
	}
	zzverif.Reach("name-after-other-provider")
}
