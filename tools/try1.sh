#!/bin/sh
# usage: tools/try1.sh <property> <seed> <harness-substring>   (development: one harness against a seeded worktree)
id="$1"; seed="$2"; only="$3"
wt=/tmp/ts1/$seed
git -C /repo worktree remove --force $wt 2>/dev/null; rm -rf $wt; mkdir -p /tmp/ts1
git -C /repo worktree add --detach $wt HEAD >/dev/null 2>&1 || exit 2
( cd $wt && git apply /verif/seeded/$seed/patch.diff ) || { echo "patch does not apply"; git -C /repo worktree remove --force $wt; exit 2; }
cd /verif
VERIF_VERBOSE=1 VERIF_REPO_DIR=$wt VERIF_EVIDENCE_DIR=/tmp/ts1/ev-$seed engine/gosym -verif /verif -check checks/$id.json -only "$only" 2>&1 | cut -c1-300 | grep -v "^KNOWN\|^\s\s\s\|^goroutine\|^created\|^$" | tail -8
git -C /repo worktree remove --force $wt; rm -rf $wt
