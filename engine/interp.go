// Derived from golang.org/x/tools/go/ssa/interp (BSD licence, The Go Authors),
// reworked into a symbolic executor: scalars may be SMT terms, control flow on
// symbolic conditions forks by re-execution, heap writes are journaled.

package main

import (
	"fmt"
	"go/token"
	"go/types"
	"os"
	"runtime"
	"slices"
	"strings"

	"golang.org/x/tools/go/ssa"
)

type continuation int

const (
	kNext continuation = iota
	kReturn
	kJump
)

type methodSet map[string]*ssa.Function

// engineErr is an internal/unsupported condition: the run is inconclusive.
type engineErr struct{ msg string }

func (e engineErr) Error() string { return e.msg }

// pathAbort ends the current path without it being a target-level panic.
type pathAbort struct {
	kind string // "assume", "violation", "steplimit", "depthlimit", "exit"
	msg  string
}

// runtimeErr is a Go run-time panic raised by the target program
// (index out of range, nil dereference, ...). Recoverable by the target.
type runtimeErr struct{ msg string }

func (e runtimeErr) Error() string { return "runtime error: " + e.msg }
func (e runtimeErr) RuntimeError() {}

type jent struct {
	p   *value
	old value
	fn  func()
}

// State of one worker's interpreter.
type interpreter struct {
	prog               *ssa.Program
	globals            map[*ssa.Global]*value
	inited             map[*ssa.Package]bool
	reflectPackage     *ssa.Package
	errorMethods       methodSet
	rtypeMethods       methodSet
	runtimeErrorString types.Type
	sizes              types.Sizes

	ts     *TermStore
	solver *Solver

	// per path
	path       *pathCtx
	journal    []jent
	journaling bool
	steps      int64
	maxSteps   int64
	sched      *scheduler
	side       map[any]any // per-path side tables (mutex state etc.)
	scalePkg   []pkgScale
	env        map[string]value
	cfg        *harnessCfg

	scale   map[*ssaFunc]map[int64]int64
	results *results
	clock   *clockState

	// statistics
	funcsSeen map[*ssa.Function]int
	stubsHit  map[string]int
	initDepth int
	trace     bool
	directInit bool
	uninit     map[*ssa.Package]bool
	iteCache   map[iteKey]*Term
	methodLookups []string // reflect.MethodByName hits on this path
	methodCalls   []string // functions invoked through reflect.Value.Call on this path
}

type deferred struct {
	fn    value
	args  []value
	instr *ssa.Defer
	tail  *deferred
}

type fnInfo struct {
	idx map[ssa.Value]int32
	n   int
}

type frame struct {
	i                *interpreter
	caller           *frame
	fn               *ssa.Function
	info             *fnInfo
	block, prevBlock *ssa.BasicBlock
	env              []value
	locals           []value
	defers           *deferred
	result           value
	panicking        bool
	panic            any
	phitemps         []value
	thr              *thread
	callpos          token.Pos
}

func deref(t types.Type) types.Type {
	if p, ok := t.Underlying().(*types.Pointer); ok {
		return p.Elem()
	}
	panic(fmt.Sprintf("deref: not a pointer: %s", t))
}

func (fr *frame) set(k ssa.Value, v value) {
	fr.env[fr.info.idx[k]] = v
}

func (fr *frame) get(key ssa.Value) value {
	switch key := key.(type) {
	case nil:
		return nil
	case *ssa.Function, *ssa.Builtin:
		return key
	case *ssa.Const:
		if fr.i.scalePkg != nil && key.Value != nil && fr.fn.Pkg != nil {
			if b, ok := key.Type().Underlying().(*types.Basic); ok && b.Info()&types.IsInteger != 0 {
				for _, ps := range fr.i.scalePkg {
					if fr.fn.Pkg.Pkg.Path() == ps.pkg && b.Name() == ps.typ && key.Int64() == ps.from {
						return valueOfBits(b.Kind(), uint64(ps.to))
					}
				}
			}
		}
		if fr.i.scale != nil {
			if sc := fr.i.scale[fr.fn]; sc != nil && key.Value != nil {
				if b, ok := key.Type().Underlying().(*types.Basic); ok && b.Info()&types.IsInteger != 0 {
					if to, ok := sc[key.Int64()]; ok {
						return valueOfBits(b.Kind(), uint64(to))
					}
				}
			}
		}
		return constValue(key)
	case *ssa.Global:
		fr.i.touchPkg(key.Pkg)
		if fr.i.uninit[key.Pkg] && key.Pkg.Pkg.Path() == "path/filepath" {
			// the three variables filepath's (skipped) init sets that Walk needs
			if r, ok := fr.i.globals[key]; ok {
				return r
			}
			var cell value
			switch key.Name() {
			case "lstat":
				cell = key.Pkg.Prog.ImportedPackage("os").Func("Lstat")
			case "SkipDir", "SkipAll":
				fsPkg := key.Pkg.Prog.ImportedPackage("io/fs")
				cell = *(fr.get(fsPkg.Members[key.Name()].(*ssa.Global)).(*value))
			}
			if cell != nil {
				fr.i.globals[key] = &cell
				return &cell
			}
		}
		if fr.i.uninit[key.Pkg] && !globalReadOK(key) {
			panic(engineErr{"UNSUPPORTED read of global " + key.String() + ": its package's init is not run by the engine (add a stub or enable the init)"})
		}
		if r, ok := fr.i.globals[key]; ok {
			return r
		}
		cell := zero(deref(key.Type()))
		fr.i.globals[key] = &cell
		return &cell
	}
	if ix, ok := fr.info.idx[key]; ok {
		return fr.env[ix]
	}
	panic(engineErr{fmt.Sprintf("get: no value for %T: %v in %s", key, key.Name(), fr.fn)})
}

// ---------------------------------------------------------------------
// journal

func (i *interpreter) setCell(p *value, v value) {
	if i.journaling {
		i.journal = append(i.journal, jent{p: p, old: *p})
	}
	*p = v
}

func (i *interpreter) onUndo(fn func()) {
	if i.journaling {
		i.journal = append(i.journal, jent{fn: fn})
	}
}

func (i *interpreter) undoAll() {
	for k := len(i.journal) - 1; k >= 0; k-- {
		e := &i.journal[k]
		if e.fn != nil {
			e.fn()
		} else {
			*e.p = e.old
		}
	}
	i.journal = i.journal[:0]
}

// store stores value v of type T into *addr (journaled).
func (i *interpreter) store(T types.Type, addr *value, v value) {
	switch T := T.Underlying().(type) {
	case *types.Struct:
		lhs := (*addr).(structure)
		rhs := v.(structure)
		for k := range lhs {
			i.store(T.Field(k).Type(), &lhs[k], rhs[k])
		}
	case *types.Array:
		lhs := (*addr).(array)
		rhs := v.(array)
		et := T.Elem()
		for k := range lhs {
			i.store(et, &lhs[k], rhs[k])
		}
	default:
		i.setCell(addr, v)
	}
}

// ---------------------------------------------------------------------
// package initialisation (lazy, sticky, unjournaled)

func (i *interpreter) touchPkg(p *ssa.Package) {
	if p == nil || i.inited[p] {
		return
	}
	i.inited[p] = true
	if skipInit(p.Pkg.Path()) {
		if i.uninit == nil {
			i.uninit = map[*ssa.Package]bool{}
		}
		i.uninit[p] = true
		return
	}
	initFn := p.Func("init")
	if initFn == nil || initFn.Blocks == nil {
		return
	}
	saveJ := i.journaling
	savePath := i.path
	i.journaling = false
	i.path = nil // inits must not depend on symbolic state
	i.initDepth++
	defer func() {
		i.initDepth--
		i.journaling = saveJ
		i.path = savePath
	}()
	i.directInit = true
	call(i, nil, token.NoPos, initFn, nil)
}

// ---------------------------------------------------------------------

func (fr *frame) runDefer(d *deferred) {
	var ok bool
	defer func() {
		if !ok {
			p := recover()
			if isFatal(p) {
				panic(p)
			}
			fr.panicking = true
			fr.panic = box(fr, p)
		}
	}()
	call(fr.i, fr, d.instr.Pos(), d.fn, d.args)
	ok = true
}

func isFatal(p any) bool {
	switch p := p.(type) {
	case engineErr, pathAbort, deadlockAbort, goroutinePanic, threadKill:
		return true
	case *panicBox:
		return false
	case targetPanic, runtimeErr:
		return false
	case runtime.Error:
		// a Go run-time panic inside the engine itself: only integer
		// division by zero is a legitimate target-level panic here
		return !strings.Contains(p.Error(), "integer divide by zero")
	case string:
		return false
	}
	return true
}

// panicBox carries a target-level panic together with where it was raised.
type panicBox struct {
	p      any
	origin string
}

func box(fr *frame, p any) *panicBox {
	if pb, ok := p.(*panicBox); ok {
		return pb
	}
	return &panicBox{p: p, origin: originOf(fr)}
}

func originOf(fr *frame) string {
	for f := fr; f != nil; f = f.caller {
		if f.fn != nil && f.fn.Pkg != nil && strings.HasPrefix(f.fn.Pkg.Pkg.Path(), "github.com/glyphlang/glyph") &&
			!strings.Contains(f.fn.Pkg.Pkg.Path(), "zzverif") && !strings.HasPrefix(f.fn.Name(), "Verif") {
			return f.fn.String()
		}
	}
	if fr != nil && fr.fn != nil {
		return fr.fn.String()
	}
	return "?"
}

func (fr *frame) runDefers() {
	for d := fr.defers; d != nil; d = d.tail {
		fr.runDefer(d)
	}
	fr.defers = nil
	if fr.panicking {
		panic(fr.panic)
	}
}

func lookupMethod(i *interpreter, typ types.Type, meth *types.Func) *ssa.Function {
	switch typ {
	case rtypeType:
		return i.rtypeMethods[meth.Id()]
	case errorType:
		return i.errorMethods[meth.Id()]
	}
	return i.prog.LookupMethod(typ, meth.Pkg(), meth.Name())
}

func (i *interpreter) tick(fr *frame) {
	if i.initDepth > 0 {
		return
	}
	i.steps++
	if i.steps > i.maxSteps {
		panic(pathAbort{"steplimit", fmt.Sprintf("step limit %d exceeded in %s", i.maxSteps, stackOf(fr))})
	}
}

func visitInstr(fr *frame, instr ssa.Instruction) continuation {
	i := fr.i
	i.tick(fr)
	switch instr := instr.(type) {
	case *ssa.DebugRef:
		// no-op

	case *ssa.UnOp:
		fr.set(instr, unop(fr, instr, fr.get(instr.X)))

	case *ssa.BinOp:
		fr.set(instr, binop(fr, instr.Op, instr.X.Type(), fr.get(instr.X), fr.get(instr.Y)))

	case *ssa.Call:
		fn, args := prepareCall(fr, &instr.Call)
		fr.set(instr, call(fr.i, fr, instr.Pos(), fn, args))

	case *ssa.ChangeInterface:
		fr.set(instr, fr.get(instr.X))

	case *ssa.ChangeType:
		fr.set(instr, fr.get(instr.X))

	case *ssa.Convert:
		fr.set(instr, conv(fr, instr.Type(), instr.X.Type(), fr.get(instr.X)))

	case *ssa.SliceToArrayPointer:
		fr.set(instr, sliceToArrayPointer(instr.Type(), instr.X.Type(), fr.get(instr.X)))

	case *ssa.MakeInterface:
		fr.set(instr, iface{t: instr.X.Type(), v: fr.get(instr.X)})

	case *ssa.Extract:
		fr.set(instr, fr.get(instr.Tuple).(tuple)[instr.Index])

	case *ssa.Slice:
		fr.set(instr, slice(fr, fr.get(instr.X), fr.get(instr.Low), fr.get(instr.High), fr.get(instr.Max)))

	case *ssa.Return:
		switch len(instr.Results) {
		case 0:
		case 1:
			fr.result = fr.get(instr.Results[0])
		default:
			var res []value
			for _, r := range instr.Results {
				res = append(res, fr.get(r))
			}
			fr.result = tuple(res)
		}
		fr.block = nil
		return kReturn

	case *ssa.RunDefers:
		fr.runDefers()

	case *ssa.Panic:
		panic(targetPanic{fr.get(instr.X)})

	case *ssa.Send:
		chanSend(fr, fr.get(instr.Chan).(*chanv), fr.get(instr.X))

	case *ssa.Store:
		addr := fr.get(instr.Addr)
		if sr, isRef := addr.(*symref); isRef {
			sr.store(fr, fr.get(instr.Val))
			break
		}
		p, ok := addr.(*value)
		if !ok {
			panic(engineErr{fmt.Sprintf("store through %T", addr)})
		}
		if p == nil {
			panic(runtimeErr{"invalid memory address or nil pointer dereference"})
		}
		memAccess(fr, p, true)
		i.store(deref(instr.Addr.Type()), p, fr.get(instr.Val))

	case *ssa.If:
		succ := 1
		if fr.cond(fr.get(instr.Cond)) {
			succ = 0
		}
		fr.prevBlock, fr.block = fr.block, fr.block.Succs[succ]
		return kJump

	case *ssa.Jump:
		fr.prevBlock, fr.block = fr.block, fr.block.Succs[0]
		return kJump

	case *ssa.Defer:
		fn, args := prepareCall(fr, &instr.Call)
		defers := &fr.defers
		if into := fr.get(instr.DeferStack); into != nil {
			defers = into.(**deferred)
		}
		*defers = &deferred{fn: fn, args: args, instr: instr, tail: *defers}

	case *ssa.Go:
		fn, args := prepareCall(fr, &instr.Call)
		i.sched.spawn(fr, instr.Pos(), fn, args)

	case *ssa.MakeChan:
		fr.set(instr, newChan(int(fr.concInt(fr.get(instr.Size), 0, 1<<20, "chan size"))))

	case *ssa.Alloc:
		var addr *value
		if instr.Heap {
			addr = new(value)
			fr.set(instr, addr)
		} else {
			addr = fr.get(instr).(*value)
		}
		*addr = zero(deref(instr.Type()))

	case *ssa.MakeSlice:
		tElt := instr.Type().Underlying().(*types.Slice).Elem()
		esz := i.sizes.Sizeof(tElt)
		if esz <= 0 {
			esz = 1
		}
		maxElems := i.cfg.MaxAlloc / esz
		capv := fr.concInt(fr.get(instr.Cap), 0, maxElems, "make: cap")
		lenv := fr.concInt(fr.get(instr.Len), 0, capv, "make: len")
		sl := make([]value, capv)
		for k := range sl {
			sl[k] = zero(tElt)
		}
		fr.set(instr, sl[:lenv])

	case *ssa.MakeMap:
		if instr.Reserve != nil {
			fr.concInt(fr.get(instr.Reserve), -1<<62, i.cfg.MaxAlloc/16, "make map: size hint")
		}
		fr.set(instr, makeMap(instr.Type().Underlying().(*types.Map).Key()))

	case *ssa.Range:
		fr.set(instr, rangeIter(fr, fr.get(instr.X)))

	case *ssa.Next:
		fr.set(instr, fr.get(instr.Iter).(iter).next(fr))

	case *ssa.FieldAddr:
		x := fr.get(instr.X).(*value)
		if x == nil {
			panic(runtimeErr{"invalid memory address or nil pointer dereference"})
		}
		fr.set(instr, &(*x).(structure)[instr.Field])

	case *ssa.Field:
		fr.set(instr, fr.get(instr.X).(structure)[instr.Field])

	case *ssa.IndexAddr:
		x := fr.get(instr.X)
		idx := fr.get(instr.Index)
		var elems []value
		switch x := x.(type) {
		case []value:
			elems = x
		case *value: // *array
			if x == nil {
				panic(runtimeErr{"invalid memory address or nil pointer dereference"})
			}
			elems = []value((*x).(array))
		default:
			panic(engineErr{fmt.Sprintf("unexpected x type in IndexAddr: %T", x)})
		}
		if s, ok := idx.(*sym); ok && len(elems) > 3 {
			et := deref(instr.Type())
			if b := basicOf(et); b != nil && b.Info()&(types.IsInteger|types.IsBoolean|types.IsFloat) != 0 && len(elems) <= 512 {
				// symbolic element reference: loads become ite chains
				ts := i.ts
				t64 := ts.Resize(s.t, 64, isSigned(instr.Index.Type()))
				if !fr.cond(boolVal(ts.bvCmp("bvult", t64, ts.BV(uint64(len(elems)), 64)))) {
					panic(runtimeErr{fmt.Sprintf("index out of range [symbolic] with length %d", len(elems))})
				}
				fr.set(instr, &symref{elems: elems, idx: t64, et: et})
				break
			}
		}
		k := fr.concIndex(idx, len(elems), instr.Index.Type())
		fr.set(instr, &elems[k])

	case *ssa.Index:
		x := fr.get(instr.X)
		idx := fr.get(instr.Index)
		switch x := x.(type) {
		case array:
			fr.set(instr, fr.indexRead([]value(x), idx, instr.Index.Type(), instr.Type()))
		case string:
			if s, ok := idx.(*sym); ok {
				fr.set(instr, fr.indexRead(strBytes(x), s, instr.Index.Type(), instr.Type()))
			} else {
				k := asInt64(idx)
				if k < 0 || k >= int64(len(x)) {
					panic(runtimeErr{fmt.Sprintf("index out of range [%d] with length %d", k, len(x))})
				}
				fr.set(instr, x[k])
			}
		case symstr:
			fr.set(instr, fr.indexRead([]value(x), idx, instr.Index.Type(), instr.Type()))
		default:
			panic(engineErr{fmt.Sprintf("unexpected x type in Index: %T", x)})
		}

	case *ssa.Lookup:
		fr.set(instr, lookup(fr, instr, fr.get(instr.X), fr.get(instr.Index)))

	case *ssa.MapUpdate:
		m, ok := fr.get(instr.Map).(*omap)
		if !ok {
			panic(engineErr{"illegal map type"})
		}
		if m == nil {
			panic(targetPanic{iface{i.runtimeErrorString, "assignment to entry in nil map"}})
		}
		mapAccess(fr, m, true)
		m.insert(fr, fr.get(instr.Key), fr.get(instr.Value))

	case *ssa.TypeAssert:
		fr.set(instr, typeAssert(fr.i, instr, fr.get(instr.X).(iface)))

	case *ssa.MakeClosure:
		var bindings []value
		for _, binding := range instr.Bindings {
			bindings = append(bindings, fr.get(binding))
		}
		fr.set(instr, &closure{instr.Fn.(*ssa.Function), bindings})

	case *ssa.Phi:
		panic(engineErr{"unreachable phi"})

	case *ssa.Select:
		fr.set(instr, doSelect(fr, instr))

	default:
		panic(engineErr{fmt.Sprintf("unexpected instruction: %T", instr)})
	}
	return kNext
}

func prepareCall(fr *frame, call *ssa.CallCommon) (fn value, args []value) {
	v := fr.get(call.Value)
	if call.Method == nil {
		fn = v
	} else {
		recv := v.(iface)
		if recv.t == nil {
			panic(runtimeErr{"invalid memory address or nil pointer dereference (method call on nil interface)"})
		}
		if f := lookupMethod(fr.i, recv.t, call.Method); f == nil {
			panic(engineErr{fmt.Sprintf("method set for dynamic type %v does not contain %s", recv.t, call.Method)})
		} else {
			fn = f
		}
		args = append(args, recv.v)
	}
	for _, arg := range call.Args {
		args = append(args, fr.get(arg))
	}
	return
}

func call(i *interpreter, caller *frame, callpos token.Pos, fn value, args []value) value {
	switch fn := fn.(type) {
	case *ssa.Function:
		if fn == nil {
			panic(runtimeErr{"invalid memory address or nil pointer dereference (call of nil func)"})
		}
		return callSSA(i, caller, callpos, fn, args, nil)
	case *closure:
		return callSSA(i, caller, callpos, fn.Fn, args, fn.Env)
	case *ssa.Builtin:
		return callBuiltin(caller, fn, args)
	case *nativeFunc:
		return fn.f(caller, args)
	}
	panic(engineErr{fmt.Sprintf("cannot call %T", fn)})
}

// nativeFunc is a function value implemented by the engine.
type nativeFunc struct {
	name string
	f    func(fr *frame, args []value) value
}

var fnInfoCache = map[*ssa.Function]*fnInfo{}
var fnInfoMu rwlock

func getFnInfo(fn *ssa.Function) *fnInfo {
	fnInfoMu.RLock()
	inf := fnInfoCache[fn]
	fnInfoMu.RUnlock()
	if inf != nil {
		return inf
	}
	inf = &fnInfo{idx: map[ssa.Value]int32{}}
	add := func(v ssa.Value) {
		inf.idx[v] = int32(inf.n)
		inf.n++
	}
	for _, p := range fn.Params {
		add(p)
	}
	for _, fv := range fn.FreeVars {
		add(fv)
	}
	for _, b := range fn.Blocks {
		for _, ins := range b.Instrs {
			if v, ok := ins.(ssa.Value); ok {
				add(v)
			}
		}
	}
	fnInfoMu.Lock()
	fnInfoCache[fn] = inf
	fnInfoMu.Unlock()
	return inf
}

func (i *interpreter) threadOf(caller *frame) *thread {
	if caller != nil {
		return caller.thr
	}
	if i.sched != nil {
		return i.sched.cur
	}
	return nil
}

func callSSA(i *interpreter, caller *frame, callpos token.Pos, fn *ssa.Function, args []value, env []value) value {
	fr := &frame{i: i, caller: caller, fn: fn, callpos: callpos}
	fr.thr = i.threadOf(caller)
	if fn.Parent() == nil {
		name := fn.String()
		if ext := externals[name]; ext != nil {
			r := ext(fr, args)
			if _, ft := r.(fallThroughT); !ft {
				if i.initDepth == 0 {
					i.stubsHit[name]++
				}
				return r
			}
		}
		if fn.Blocks == nil {
			if fn.Pkg != nil {
				fn.Pkg.Build()
			}
			if fn.Blocks == nil {
				panic(engineErr{"UNSUPPORTED no code for function: " + name})
			}
		}
	}
	if fn.Synthetic == "package initializer" {
		if !i.directInit {
			// dependency init called from another package's init: lazy instead
			i.touchPkg(fn.Pkg)
			return nil
		}
		i.directInit = false
	} else if fn.Pkg != nil {
		i.touchPkg(fn.Pkg)
	}
	if fn.TypeParams().Len() > 0 && len(fn.TypeArgs()) == 0 {
		panic(engineErr{"generic function body not instantiated: " + fn.String()})
	}
	if i.initDepth == 0 {
		i.funcsSeen[fn]++
	}
	if i.trace {
		fmt.Fprintf(os.Stderr, "%*scall %s\n", depthOf(fr), "", fn)
	}

	fr.info = getFnInfo(fn)
	fr.env = make([]value, fr.info.n)
	fr.block = fn.Blocks[0]
	fr.locals = make([]value, len(fn.Locals))
	for k, l := range fn.Locals {
		fr.locals[k] = zero(deref(l.Type()))
		fr.set(l, &fr.locals[k])
	}
	for k, p := range fn.Params {
		fr.set(p, args[k])
	}
	for k, fv := range fn.FreeVars {
		fr.set(fv, env[k])
	}
	for fr.block != nil {
		runFrame(fr)
	}
	return fr.result
}

func depthOf(fr *frame) int {
	d := 0
	for f := fr; f != nil; f = f.caller {
		d++
	}
	return d
}

func runFrame(fr *frame) {
	defer func() {
		if fr.block == nil {
			return // normal return
		}
		p := recover()
		if isFatal(p) {
			if ee, ok := p.(engineErr); ok && !strings.Contains(ee.msg, " @@ ") {
				p = engineErr{ee.msg + " @@ " + stackOf(fr)}
			}
			if re, ok := p.(runtime.Error); ok {
				buf := make([]byte, 8192)
				n := runtime.Stack(buf, false)
				p = engineErr{"engine fault: " + re.Error() + " in " + stackOf(fr) + "\n" + string(buf[:n])}
			}
			panic(p)
		}
		fr.panicking = true
		fr.panic = box(fr, p)
		fr.runDefers()
		fr.block = fr.fn.Recover
	}()

	for {
		nonPhis := executePhis(fr)
		for _, instr := range nonPhis {
			if visitInstr(fr, instr) == kReturn {
				return
			}
		}
	}
}

func executePhis(fr *frame) []ssa.Instruction {
	firstNonPhi := -1
	for i, instr := range fr.block.Instrs {
		if _, ok := instr.(*ssa.Phi); !ok {
			firstNonPhi = i
			break
		}
	}
	nonPhis := fr.block.Instrs[firstNonPhi:]
	if firstNonPhi > 0 {
		phis := fr.block.Instrs[:firstNonPhi]
		predIndex := slices.Index(fr.block.Preds, fr.prevBlock)
		fr.phitemps = fr.phitemps[:0]
		for _, phi := range phis {
			phi := phi.(*ssa.Phi)
			fr.phitemps = append(fr.phitemps, fr.get(phi.Edges[predIndex]))
		}
		for i, phi := range phis {
			fr.set(phi.(*ssa.Phi), fr.phitemps[i])
		}
	}
	return nonPhis
}

func doRecover(caller *frame) value {
	if caller != nil && !caller.panicking &&
		caller.caller != nil && caller.caller.panicking {
		p := caller.caller.panic
		if pb, ok := p.(*panicBox); ok {
			p = pb.p
		}
		switch p := p.(type) {
		case targetPanic:
			caller.caller.panicking = false
			caller.caller.panic = nil
			return p.v
		case runtimeErr:
			caller.caller.panicking = false
			caller.caller.panic = nil
			return iface{caller.i.runtimeErrorString, p.msg}
		case runtime.Error:
			caller.caller.panicking = false
			caller.caller.panic = nil
			return iface{caller.i.runtimeErrorString, strings.TrimPrefix(p.Error(), "runtime error: ")}
		case string:
			caller.caller.panicking = false
			caller.caller.panic = nil
			return iface{caller.i.runtimeErrorString, p}
		default:
			panic(p) // engine error / abort: not recoverable by the target
		}
	}
	return iface{}
}

// describePanic renders an escaped target panic for reports.
func describePanic(p any) string {
	if pb, ok := p.(*panicBox); ok {
		p = pb.p
	}
	switch p := p.(type) {
	case targetPanic:
		return "panic: " + toString(p.v)
	case runtime.Error:
		return "panic: " + p.Error()
	case string:
		return "panic: " + p
	}
	return fmt.Sprintf("panic: %v", p)
}

func posString(prog *ssa.Program, pos token.Pos) string {
	if pos == token.NoPos {
		return "?"
	}
	p := prog.Fset.Position(pos)
	f := p.Filename
	if k := strings.Index(f, repoDir+"/"); k >= 0 {
		f = f[k+len(repoDir)+1:]
	}
	return fmt.Sprintf("%s:%d", f, p.Line)
}

func stackOf(fr *frame) string {
	var sb strings.Builder
	n := 0
	for f := fr; f != nil && n < 14; f = f.caller {
		if f.fn != nil {
			if n > 0 {
				sb.WriteString(" <- ")
			}
			sb.WriteString(f.fn.String())
			n++
		}
	}
	return sb.String()
}

// symref is a pointer to elems[idx] with a symbolic in-range index over
// scalar elements.
type symref struct {
	elems []value
	idx   *Term // BV64, known to be < len(elems)
	et    types.Type
}

type iteKey struct {
	p   *value
	n   int
	idx int
	h   uint64
}

func (r *symref) load(fr *frame) value {
	return mkSym(fr.i.iteChain(r.elems, r.idx), basicOf(r.et).Kind())
}

// iteChain builds elems[idx] as an ite chain; chains over all-concrete
// tables are cached per worker (validated by a content hash).
func (i *interpreter) iteChain(elems []value, idx *Term) *Term {
	ts := i.ts
	n := len(elems)
	h := uint64(14695981039346656037)
	conc := true
	for _, e := range elems {
		var x uint64
		switch v := e.(type) {
		case uint8:
			x = uint64(v)
		case int32:
			x = uint64(v)
		case uint16:
			x = uint64(v)
		case uint32:
			x = uint64(v)
		case int:
			x = uint64(v)
		case bool:
			if v {
				x = 1
			}
		default:
			conc = false
		}
		if !conc {
			break
		}
		h = (h ^ x) * 1099511628211
	}
	var key iteKey
	if conc {
		key = iteKey{&elems[0], n, idx.id, h}
		if t, ok := i.iteCache[key]; ok {
			return t
		}
	}
	t := i.termOf(elems[n-1])
	for k := n - 2; k >= 0; k-- {
		t = ts.Ite(ts.Eq(idx, ts.BV(uint64(k), 64)), i.termOf(elems[k]), t)
	}
	if conc {
		if i.iteCache == nil {
			i.iteCache = map[iteKey]*Term{}
		}
		i.iteCache[key] = t
	}
	return t
}

func (r *symref) store(fr *frame, v value) {
	ts := fr.i.ts
	k0 := basicOf(r.et).Kind()
	vt := fr.i.termOf(v)
	for k := range r.elems {
		c := ts.Eq(r.idx, ts.BV(uint64(k), 64))
		fr.i.setCell(&r.elems[k], mkSym(ts.Ite(c, vt, fr.i.termOf(r.elems[k])), k0))
	}
}

// globalReadOK: globals of packages whose init is skipped that are safe to
// read in their zero state, or that hold only static data built without init
// code (string/numeric constants-as-vars are initialised statically by the
// SSA builder into init, so they are NOT safe and not listed).
func globalReadOK(g *ssa.Global) bool {
	switch g.Pkg.Pkg.Path() {
	case "os":
		switch g.Name() {
		case "Stdout", "Stderr", "Stdin", "Args", "ErrNotExist", "ErrExist", "ErrPermission":
			return true
		}
	case "net/http":
		// the zero error value stands for http.ErrServerClosed (engine/httpsrv.go)
		return g.Name() == "ErrServerClosed"
	case "sync", "sync/atomic", "runtime", "internal/race", "internal/godebug", "unsafe", "internal/cpu":
		return true
	}
	if strings.HasPrefix(g.Name(), "init$guard") {
		return true
	}
	return false
}
