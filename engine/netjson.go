package main

// Models of encoding/json (value recorder), net/http.Header, net.SplitHostPort.

import (
	"fmt"
	"math"
	"go/types"
	"net"
	"net/textproto"
	neturl "net/url"
	"sort"
)

type jsonRec struct {
	kind string
	v    value
}

func (i *interpreter) recordJSON(kind string, v value) int {
	l, _ := i.side["json"].([]jsonRec)
	l = append(l, jsonRec{kind, v})
	i.side["json"] = l
	return len(l)
}

// jsonUnsupported: a value encoding/json refuses - a concrete NaN or infinite
// float anywhere inside it (json: unsupported value). Symbolic floats are taken
// as finite (stated in DESIGN.md 9.1).
func jsonUnsupported(v value, depth int) bool {
	if depth > 12 {
		return false
	}
	switch x := v.(type) {
	case float64:
		return math.IsNaN(x) || math.IsInf(x, 0)
	case float32:
		return math.IsNaN(float64(x)) || math.IsInf(float64(x), 0)
	case iface:
		return x.t != nil && jsonUnsupported(x.v, depth+1)
	case []value:
		for _, e := range x {
			if jsonUnsupported(e, depth+1) {
				return true
			}
		}
	case structure:
		for _, e := range x {
			if jsonUnsupported(e, depth+1) {
				return true
			}
		}
	case *omap:
		if x != nil {
			for _, e := range x.entries {
				if !e.deleted && jsonUnsupported(e.val, depth+1) {
					return true
				}
			}
		}
	case *value:
		return x != nil && jsonUnsupported(*x, depth+1)
	}
	return false
}

func headerMap(v value) *omap {
	switch h := v.(type) {
	case *omap:
		return h
	}
	panic(engineErr{fmt.Sprintf("http.Header receiver is %T", v)})
}

func canonKey(fr *frame, k value) value {
	if s, ok := k.(string); ok {
		return textproto.CanonicalMIMEHeaderKey(s)
	}
	panic(engineErr{"UNSUPPORTED symbolic HTTP header name"})
}

func init() {
	externals["encoding/json.NewEncoder"] = func(fr *frame, a []value) value {
		t := fr.i.namedType("encoding/json", "Encoder")
		st := zero(t).(structure)
		st[0] = a[0] // w io.Writer is the first field
		var cell value = st
		return &cell
	}
	externals["(*encoding/json.Encoder).Encode"] = func(fr *frame, a []value) value {
		i := fr.i
		if jsonUnsupported(a[1], 0) {
			return i.newError("json: unsupported value: NaN or Inf", nil)
		}
		n := i.recordJSON("encode", a[1])
		p := a[0].(*value)
		w := (*p).(structure)[0]
		if itf, ok := w.(iface); ok && itf.t != nil {
			if m := i.findMethod(itf.t, "Write"); m != nil {
				call(i, fr, fr.callpos, m, []value{itf.v, valBytes([]byte(fmt.Sprintf("<json#%d>\n", n)))})
			}
		}
		return iface{}
	}
	externals["(*encoding/json.Encoder).SetIndent"] = nop
	externals["(*encoding/json.Encoder).SetEscapeHTML"] = nop
	externals["encoding/json.Marshal"] = func(fr *frame, a []value) value {
		if jsonUnsupported(a[0], 0) {
			return tuple{[]value(nil), fr.i.newError("json: unsupported value: NaN or Inf", nil)}
		}
		n := fr.i.recordJSON("marshal", a[0])
		return tuple{valBytes([]byte(fmt.Sprintf("<json#%d>", n))), iface{}}
	}
	externals["encoding/json.MarshalIndent"] = func(fr *frame, a []value) value {
		n := fr.i.recordJSON("marshal", a[0])
		return tuple{valBytes([]byte(fmt.Sprintf("<json#%d>", n))), iface{}}
	}
	// zzverif.JSONCount() int / zzverif.JSONValue(k int) any: what was handed to the encoder
	externals[zzPkg+"JSONCount"] = func(fr *frame, a []value) value {
		l, _ := fr.i.side["json"].([]jsonRec)
		return len(l)
	}
	externals[zzPkg+"JSONValue"] = func(fr *frame, a []value) value {
		l, _ := fr.i.side["json"].([]jsonRec)
		k := int(asInt64(a[0]))
		if k < 0 || k >= len(l) {
			return iface{}
		}
		if itf, ok := l[k].v.(iface); ok {
			return itf
		}
		return iface{}
	}

	// ---- http.Header ----------------------------------------------------
	externals["(net/http.Header).Get"] = func(fr *frame, a []value) value {
		m := headerMap(a[0])
		if m == nil {
			return ""
		}
		if e := m.find(fr, canonKey(fr, a[1])); e != nil {
			if vs, _ := e.val.([]value); len(vs) > 0 {
				return vs[0]
			}
		}
		return ""
	}
	externals["(net/http.Header).Values"] = func(fr *frame, a []value) value {
		m := headerMap(a[0])
		if m == nil {
			return []value(nil)
		}
		if e := m.find(fr, canonKey(fr, a[1])); e != nil {
			return e.val
		}
		return []value(nil)
	}
	externals["(net/http.Header).Set"] = func(fr *frame, a []value) value {
		m := headerMap(a[0])
		if m == nil {
			panic(targetPanic{iface{fr.i.runtimeErrorString, "assignment to entry in nil map"}})
		}
		m.insert(fr, canonKey(fr, a[1]), []value{a[2]})
		return nil
	}
	externals["(net/http.Header).Add"] = func(fr *frame, a []value) value {
		m := headerMap(a[0])
		if m == nil {
			panic(targetPanic{iface{fr.i.runtimeErrorString, "assignment to entry in nil map"}})
		}
		k := canonKey(fr, a[1])
		var old []value
		if e := m.find(fr, k); e != nil {
			old, _ = e.val.([]value)
		}
		m.insert(fr, k, append(append([]value{}, old...), a[2]))
		return nil
	}
	externals["(net/http.Header).Del"] = func(fr *frame, a []value) value {
		headerMap(a[0]).remove(fr, canonKey(fr, a[1]))
		return nil
	}
	externals["net/http.CanonicalHeaderKey"] = func(fr *frame, a []value) value { return canonKey(fr, a[0]) }
	externals["net/textproto.CanonicalMIMEHeaderKey"] = func(fr *frame, a []value) value { return canonKey(fr, a[0]) }
	externals["net/http.StatusText"] = func(fr *frame, a []value) value {
		return "status " + fmt.Sprint(asInt64(a[0]))
	}
	externals["net.SplitHostPort"] = func(fr *frame, a []value) value {
		if s, ok := a[0].(string); ok {
			h, p, err := net.SplitHostPort(s)
			if err == nil {
				return tuple{h, p, iface{}}
			}
		}
		return fallThrough
	}
	externals["net/http.Error"] = func(fr *frame, a []value) value {
		i := fr.i
		w := a[0].(iface)
		if m := i.findMethod(w.t, "WriteHeader"); m != nil {
			call(i, fr, fr.callpos, m, []value{w.v, a[2]})
		}
		if m := i.findMethod(w.t, "Write"); m != nil {
			call(i, fr, fr.callpos, m, []value{w.v, append([]value{}, bytesOfStr(a[1])...)})
		}
		return nil
	}
}

var _ = types.Typ

func structField(st structure, t types.Type, name string) *value {
	str, ok := t.Underlying().(*types.Struct)
	if !ok {
		panic(engineErr{"structField: not a struct"})
	}
	for k := 0; k < str.NumFields(); k++ {
		if str.Field(k).Name() == name {
			return &st[k]
		}
	}
	panic(engineErr{"structField: no field " + name})
}

func init() {
	// printing helpers of the CLI: sinks
	for _, n := range []string{"printInfo", "printSuccess", "printWarning", "printError", "printRequest", "printDuration"} {
		externals["github.com/glyphlang/glyph/cmd/glyph."+n] = nop
	}
	// (*url.URL).Query on a concrete RawQuery
	externals["(*net/url.URL).Query"] = func(fr *frame, a []value) value {
		p := a[0].(*value)
		ut := fr.i.namedType("net/url", "URL")
		raw := *structField((*p).(structure), ut, "RawQuery")
		rs, ok := raw.(string)
		if !ok {
			return fallThrough // symbolic bytes: run net/url's own parser
		}
		vals, _ := neturl.ParseQuery(rs)
		m := makeMap(types.Typ[types.String])
		keys := make([]string, 0, len(vals))
		for k := range vals {
			keys = append(keys, k)
		}
		sort.Strings(keys)
		for _, k := range keys {
			m.insert(fr, k, valStrSlice(vals[k]))
		}
		return m
	}
}

// encoding/json decoding of a request body: the harness declares the decoded
// value (zzverif.SetJSONBody); Decode into *map[string]interface{} behaves as
// encoding/json does for that value: objects and null decode, an empty body
// and every other kind of value are errors. JSON text parsing itself is
// outside every claim.
type jsonBody struct {
	v       value
	present bool
}

func init() {
	externals[zzPkg+"SetJSONBody"] = func(fr *frame, a []value) value {
		fr.i.side["jsonbody"] = &jsonBody{v: a[0], present: a[1].(bool)}
		return nil
	}
	externals["encoding/json.NewDecoder"] = func(fr *frame, a []value) value {
		var cell value = zero(fr.i.namedType("encoding/json", "Decoder"))
		return &cell
	}
	externals["(*encoding/json.Decoder).Decode"] = func(fr *frame, a []value) value {
		i := fr.i
		jb, _ := i.side["jsonbody"].(*jsonBody)
		if jb == nil {
			panic(engineErr{"json.Decoder.Decode without zzverif.SetJSONBody"})
		}
		target, ok := a[1].(iface)
		if !ok {
			panic(engineErr{"json Decode: target is not an interface value"})
		}
		pt, ok := target.t.(*types.Pointer)
		if !ok {
			panic(engineErr{"UNSUPPORTED json Decode target " + target.t.String()})
		}
		if _, isMap := pt.Elem().Underlying().(*types.Map); !isMap {
			panic(engineErr{"UNSUPPORTED json Decode target " + target.t.String()})
		}
		if !jb.present {
			return i.newError("EOF", nil)
		}
		body, _ := jb.v.(iface)
		if body.t == nil { // JSON null
			*(target.v.(*value)) = (*omap)(nil)
			return iface{}
		}
		if _, isMap := body.t.Underlying().(*types.Map); !isMap {
			return i.newError("json: cannot unmarshal value into Go value of type map[string]interface {}", nil)
		}
		*(target.v.(*value)) = body.v
		return iface{}
	}
}
